/-
Work of the recovering parser: the number of rule-function entries plus iterations of the two recovery
loops is at most `4·|tokens| + 2`, for **every** token list (grammatical or not).

`rule*T` count one tick per entry of `rule_value` / `rule_member` / `rule_object` / `rule_array` and per
iteration of the `loop`s in `rule_object` / `rule_array` (`objectLoop`, `arrayLoop` in the model),
threading the same states as the model functions. The bound is proved with the potential
`ticks + 4·(tokens left) ≤ 4·(tokens before) + c`: every tick is paid for by a consumed token or is the
single entry tick of a call. The twins count the model; the tie to the generated parser is the CST
comparison (the real tree is the model's tree on every text of every run), not a hook counter.
-/
import ShapeVerif.Lemmas.ParseFuel
namespace ShapeVerif

mutual
def ruleValueT : Nat → PState → Nat
  | 0, _ => 0
  | fuel + 1, s =>
    1 + (if s.current == .lbrace then ruleObjectT fuel s
         else if s.current == .lbrak then ruleArrayT fuel s
         else 0)
def ruleMemberT : Nat → PState → Nat
  | 0, _ => 0
  | fuel + 1, s => 1 + ruleValueT fuel ((s.expect .string).1.expect .colon).1
def objectLoopT : Nat → PState → Nat
  | 0, _ => 0
  | fuel + 1, s =>
    1 + (if s.current == .comma then
           ruleMemberT fuel (s.expect .comma).1 + objectLoopT fuel (ruleMember fuel (s.expect .comma).1).1
         else if s.current == .rbrace || s.current == .eof || s.current == .rbrak then 0
         else objectLoopT fuel s.advanceWithError.1)
def ruleObjectT : Nat → PState → Nat
  | 0, _ => 0
  | fuel + 1, s =>
    1 + (if (s.expect .lbrace).1.current == .string then
           ruleMemberT fuel (s.expect .lbrace).1 + objectLoopT fuel (ruleMember fuel (s.expect .lbrace).1).1
         else 0)
def arrayLoopT : Nat → PState → Nat
  | 0, _ => 0
  | fuel + 1, s =>
    1 + (if s.current == .comma then
           ruleValueT fuel (s.expect .comma).1 + arrayLoopT fuel (ruleValue fuel (s.expect .comma).1).1
         else if s.current == .rbrak || s.current == .eof || s.current == .rbrace then 0
         else arrayLoopT fuel s.advanceWithError.1)
def ruleArrayT : Nat → PState → Nat
  | 0, _ => 0
  | fuel + 1, s =>
    1 + (if isValueStart (s.expect .lbrak).1.current then
           ruleValueT fuel (s.expect .lbrak).1 + arrayLoopT fuel (ruleValue fuel (s.expect .lbrak).1).1
         else 0)
end

theorem ruleLiteral_len (s : PState) : L (ruleLiteral s).1 ≤ L s := yields_len ruleLiteral_yields s

theorem parser_work (fuel : Nat) :
    (∀ s, Coh s → ruleValueT fuel s + 4 * L (ruleValue fuel s).1 ≤ 4 * L s + 2) ∧
    (∀ s, Coh s → ruleMemberT fuel s + 4 * L (ruleMember fuel s).1 ≤ 4 * L s + 3) ∧
    (∀ s, Coh s → objectLoopT fuel s + 4 * L (objectLoop fuel s).1 ≤ 4 * L s + 1) ∧
    (∀ s, Coh s → (s.current == .lbrace) = true → ruleObjectT fuel s + 4 * L (ruleObject fuel s).1 ≤ 4 * L s + 1) ∧
    (∀ s, Coh s → arrayLoopT fuel s + 4 * L (arrayLoop fuel s).1 ≤ 4 * L s + 1) ∧
    (∀ s, Coh s → (s.current == .lbrak) = true → ruleArrayT fuel s + 4 * L (ruleArray fuel s).1 ≤ 4 * L s + 1) := by
  induction fuel with
  | zero =>
    refine ⟨?_, ?_, ?_, ?_, ?_, ?_⟩ <;> intros <;>
      simp only [ruleValueT, ruleMemberT, objectLoopT, ruleObjectT, arrayLoopT, ruleArrayT,
        ruleValue, ruleMember, objectLoop, ruleObject, arrayLoop, ruleArray] <;> omega
  | succ fuel ih =>
    obtain ⟨ihV, ihM, ihOL, ihO, ihAL, ihA⟩ := ih
    have kV := (coh_stable.rules fuel).1
    have kM := (coh_stable.rules fuel).2.1
    have kOL := (coh_stable.rules fuel).2.2.1
    have kAL := (coh_stable.rules fuel).2.2.2.2.1
    refine ⟨?_, ?_, ?_, ?_, ?_, ?_⟩
    · -- rule_value
      intro s hc
      simp only [ruleValueT, ruleValue]
      split
      · rename_i hk; have := ihO s hc hk; omega
      split
      · rename_i hk; have := ihA s hc hk; omega
      split
      · have := ruleLiteral_len s; omega
      · have : L s.error = L s := by simp [L, error_toks]
        simp only []; omega
    · -- rule_member
      intro s hc
      simp only [ruleMemberT, ruleMember]
      have c1 := coh_stable.expect .string s hc
      have c2 := coh_stable.expect .colon _ c1
      have l1 := expect_len s .string
      have l2 := expect_len (s.expect .string).1 .colon
      have := ihV _ c2
      omega
    · -- the loop of rule_object
      intro s hc
      simp only [objectLoopT, objectLoop]
      split
      · rename_i hk
        have c1 := coh_stable.expect .comma s hc
        have l1 := expect_consumes s hc .comma hk (by decide)
        have h1 := ihM _ c1
        have c2 := kM _ c1
        have h2 := ihOL _ c2
        dsimp only
        omega
      split
      · dsimp only; omega
      · rename_i h1 h2
        have hne : s.current ≠ .eof := by intro e; simp [e] at h2
        have c1 := coh_stable.advanceWithError s hc
        have l1 := advanceWithError_consumes s hc hne
        have h3 := ihOL _ c1
        dsimp only
        omega
    · -- rule_object behind `{`
      intro s hc hk
      simp only [ruleObjectT, ruleObject]
      have c1 := coh_stable.expect .lbrace s hc
      have l1 := expect_consumes s hc .lbrace hk (by decide)
      by_cases hs : ((s.expect .lbrace).1.current == .string) = true
      · simp only [if_pos hs]
        have h1 := ihM _ c1
        have c2 := kM _ c1
        have h2 := ihOL _ c2
        have c3 := kOL _ c2
        have l3 := expect_len (objectLoop fuel (ruleMember fuel (s.expect .lbrace).1).1).1 .rbrace
        omega
      · simp only [if_neg hs]
        by_cases hr : ((s.expect .lbrace).1.current == .rbrace) = true
        · simp only [if_pos hr]
          have l3 := expect_len (s.expect .lbrace).1 .rbrace
          omega
        · simp only [if_neg hr]
          have l3 := expect_len (s.expect .lbrace).1.error .rbrace
          have : L (s.expect .lbrace).1.error = L (s.expect .lbrace).1 := by simp [L, error_toks]
          omega
    · -- the loop of rule_array
      intro s hc
      simp only [arrayLoopT, arrayLoop]
      split
      · rename_i hk
        have c1 := coh_stable.expect .comma s hc
        have l1 := expect_consumes s hc .comma hk (by decide)
        have h1 := ihV _ c1
        have c2 := kV _ c1
        have h2 := ihAL _ c2
        dsimp only
        omega
      split
      · dsimp only; omega
      · rename_i h1 h2
        have hne : s.current ≠ .eof := by intro e; simp [e] at h2
        have c1 := coh_stable.advanceWithError s hc
        have l1 := advanceWithError_consumes s hc hne
        have h3 := ihAL _ c1
        dsimp only
        omega
    · -- rule_array behind `[`
      intro s hc hk
      simp only [ruleArrayT, ruleArray]
      have c1 := coh_stable.expect .lbrak s hc
      have l1 := expect_consumes s hc .lbrak hk (by decide)
      by_cases hs : isValueStart (s.expect .lbrak).1.current = true
      · simp only [if_pos hs]
        have h1 := ihV _ c1
        have c2 := kV _ c1
        have h2 := ihAL _ c2
        have c3 := kAL _ c2
        have l3 := expect_len (arrayLoop fuel (ruleValue fuel (s.expect .lbrak).1).1).1 .rbrak
        omega
      · simp only [if_neg hs]
        by_cases hr : ((s.expect .lbrak).1.current == .rbrak) = true
        · simp only [if_pos hr]
          have l3 := expect_len (s.expect .lbrak).1 .rbrak
          omega
        · simp only [if_neg hr]
          have l3 := expect_len (s.expect .lbrak).1.error .rbrak
          have : L (s.expect .lbrak).1.error = L (s.expect .lbrak).1 := by simp [L, error_toks]
          omega

/-- **linear work**: parsing any text makes at most `4·|tokens| + 2` rule entries and loop iterations -/
theorem parse_work_linear (cs : List Char) :
    ruleValueT (2 * (tokenize cs).tokens.length + 4) (initState (tokenize cs) (utf8Len cs)) ≤
      4 * (tokenize cs).tokens.length + 2 := by
  have h := (parser_work (2 * (tokenize cs).tokens.length + 4)).1 (initState (tokenize cs) (utf8Len cs)) (initState_coh _ _)
  have hl := initState_len (tokenize cs) (utf8Len cs)
  omega

end ShapeVerif
