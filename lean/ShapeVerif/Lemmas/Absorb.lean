/-
Merging in a shape that is already a subset of the accumulator: the result admits nothing new
(`absorbed_upper`) and merging it once more changes nothing (`absorb_stable`).
-/
import ShapeVerif.Lemmas.MergeFlat
import ShapeVerif.Lemmas.Meaning
namespace ShapeVerif
open Shape Std

/-- sorted sets are determined by their members -/
theorem sortedSet_ext : ∀ {l l' : List Shape}, sortedSet l = true → sortedSet l' = true →
    (∀ v, v ∈ l ↔ v ∈ l') → l = l'
  | [], [], _, _, _ => rfl
  | [], b :: _, _, _, h => by have := (h b).2 (by simp); cases this
  | a :: _, [], _, _, h => by have := (h a).1 (by simp); cases this
  | a :: l, b :: l', hs, hs', h => by
    have hab : a = b := by
      have ha : a ∈ b :: l' := (h a).1 (by simp)
      have hb : b ∈ a :: l := (h b).2 (by simp)
      rcases List.mem_cons.1 ha with e | ha
      · exact e
      · rcases List.mem_cons.1 hb with e | hb
        · exact e.symm
        · have h1 := sortedSet_head_lt hs' a ha
          have h2 := sortedSet_head_lt hs b hb
          have := cmp_lt_trans h1 h2
          rw [cmp_refl] at this; cases this
    subst hab
    congr 1
    apply sortedSet_ext (sortedSet_tail hs) (sortedSet_tail hs')
    intro v
    constructor
    · intro hv
      have := (h v).1 (by simp [hv])
      rcases List.mem_cons.1 this with e | hv'
      · subst e
        have := sortedSet_head_lt hs v hv
        rw [cmp_refl] at this; cases this
      · exact hv'
    · intro hv
      have := (h v).2 (by simp [hv])
      rcases List.mem_cons.1 this with e | hv'
      · subst e
        have := sortedSet_head_lt hs' v hv
        rw [cmp_refl] at this; cases this
      · exact hv'

theorem addToOneOf_of_mem {x : Shape} {R : List Shape} (hs : sortedSet R = true)
    (hself : x.asNonOptional ∈ R) (hnull : x.isOptional = true → Shape.null ∈ R) :
    addToOneOf x R = R := by
  unfold addToOneOf
  have hc : (x.isOptional && !setContains .null R) = false := by
    by_cases hopt : x.isOptional = true
    · simp [hopt, setContains_iff.2 (hnull hopt)]
    · have : x.isOptional = false := by simpa using hopt
      simp [this]
  simp only [hc, Bool.false_eq_true, if_false]
  exact setInsert_of_mem hs hself

theorem sortedSet_addToOneOf {x : Shape} {vs : List Shape} (hs : sortedSet vs = true) :
    sortedSet (addToOneOf x vs) = true := by
  unfold addToOneOf; simp only
  split
  · exact sortedSet_setInsert (sortedSet_setInsert hs)
  · exact sortedSet_setInsert hs

theorem addToOneOf_idem {x : Shape} {vs : List Shape} (hs : sortedSet vs = true) :
    addToOneOf x (addToOneOf x vs) = addToOneOf x vs :=
  addToOneOf_of_mem (sortedSet_addToOneOf hs) mem_addToOneOf_self (fun h => mem_addToOneOf_null h)

/-- the variant set of the array/tuple arms is unchanged when the same tuple is merged again -/
theorem arrayTuple_variants_stable {t : Shape} {es : List Shape} (ht : t.wf = true) :
    let V := setExtend (arrayElemVariants t
      (if es.any isOptional || t.isOptional then setInsert .null [] else [])) (es.map asNonOptional)
    setExtend (arrayElemVariants (.oneOf V false)
      (if es.any isOptional || (Shape.oneOf V false).isOptional then setInsert .null [] else []))
      (es.map asNonOptional) = V := by
  intro V
  have hsV : sortedSet V = true := by
    obtain ⟨i1, i2⟩ := wf_nullInit (es.any isOptional || t.isOptional)
    exact sortedSet_setExtend (wf_arrayElemVariants ht i1 i2).1
  have hstep : arrayElemVariants (.oneOf V false)
      (if es.any isOptional || (Shape.oneOf V false).isOptional then setInsert .null [] else []) =
      setExtend (if es.any isOptional then setInsert .null [] else []) V := by
    simp [arrayElemVariants, isOptional]
  rw [hstep]
  apply sortedSet_ext _ hsV
  · intro v
    simp only [mem_setExtend]
    constructor
    · rintro ((hv | hv) | hv)
      · by_cases hany : es.any isOptional = true
        · simp only [hany, if_true] at hv
          simp [setInsert] at hv; subst hv
          apply mem_setExtend.2; left
          apply mem_arrayElemVariants_init
          apply nullInit_mem
          simp [hany]
        · have : es.any isOptional = false := by simpa using hany
          simp [this] at hv
      · exact hv
      · exact mem_setExtend.2 (Or.inr hv)
    · intro hv; exact Or.inl (Or.inr hv)
  · obtain ⟨i1, _⟩ := wf_nullInit (es.any isOptional)
    exact sortedSet_setExtend (sortedSet_setExtend i1)

theorem merge_null_right2 (s : Shape) : merger s .null = s.asOptional := by
  cases s <;> simp [merger, asOptional, withOptional]

theorem merger_asOptional_null (s : Shape) : merger s.asOptional .null = s.asOptional := by
  rw [merge_null_right2, asOptional_idem]

/-- when `d ⊑ e`, the zip position picks `d` or `e`, and picks the same again -/
theorem pick_of_sub {e d : Shape} (hd : d.wf = true) (h : isSubset d e = true) :
    ∃ c, pickTuple e d = some c ∧ pickTuple c d = some c ∧
      ((c = d ∧ isSubset e d = true) ∨ c = e) := by
  unfold pickTuple
  by_cases hed : isSubset e d = true
  · refine ⟨d, by simp [hed], by simp [subset_refl d hd], Or.inl ⟨rfl, hed⟩⟩
  · refine ⟨e, by simp [hed, h], by simp [hed, h], Or.inr rfl⟩

theorem pickAll_of_sub : ∀ (es ds : List Shape), wfList ds = true → zipAllSubset ds es = true →
    ds.length = es.length →
    ∃ folded, pickAll es ds = some folded ∧ pickAll folded ds = some folded ∧ folded.length = es.length ∧
      Pointwise (fun c ed => (c = ed.2 ∧ isSubset ed.1 ed.2 = true) ∨ c = ed.1) folded (es.zip ds)
  | [], [], _, _, _ => ⟨[], rfl, rfl, rfl, trivial⟩
  | e :: es, d :: ds, hw, hz, hl => by
    simp [wfList] at hw
    simp [zipAllSubset] at hz
    obtain ⟨c, h1, h2, h3⟩ := pick_of_sub hw.1 hz.1
    obtain ⟨cs, g1, g2, g3, g4⟩ := pickAll_of_sub es ds hw.2 hz.2 (by simpa using hl)
    refine ⟨c :: cs, by simp [pickAll, h1, g1], by simp [pickAll, h2, g2], by simp [g3], ?_⟩
    exact ⟨h3, g4⟩
  | [], _ :: _, _, _, hl => by simp at hl
  | _ :: _, [], _, _, hl => by simp at hl

/-- **stability**: once `b ⊑ a`, merging `b` a second time changes nothing -/
theorem absorb_stable_aux (n : Nat) : ∀ a : Shape, sizeOf a ≤ n → ∀ b : Shape, a.wf = true → b.wf = true →
    isSubset b a = true → merger (merger a b) b = merger a b := by
  induction n with
  | zero => intro a h; cases a <;> simp at h
  | succ n ih =>
    intro a hn b ha hb h
    cases a with
    | null => have := sub_null_inv h; subst this; rfl
    | bool o =>
      rcases sub_bool_inv h with ⟨ps, rfl, hp⟩ | ⟨rfl, hp⟩
      · simp [merger]
      · simp [merger]
    | number o =>
      rcases sub_number_inv h with ⟨ps, rfl, hp⟩ | ⟨rfl, hp⟩
      · simp [merger]
      · simp [merger]
    | string o =>
      rcases sub_string_inv h with ⟨ps, rfl, hp⟩ | ⟨rfl, hp⟩
      · simp [merger]
      · simp [merger]
    | array t o =>
      simp only [Shape.wf] at ha
      rcases sub_array_inv h with ⟨ts, ps, rfl, hts, hp⟩ | ⟨es, ps, rfl, hes, hp⟩ | ⟨rfl, hp⟩
      · simp only [Shape.wf] at hb
        simp only [merger]
        rw [ih t (by simp at hn; omega) ts ha hb hts]
        simp
      · simp only [merger]
        rw [arrayTuple_variants_stable ha]
        simp
      · simp [merger]
    | object c o =>
      simp only [Shape.wf, Bool.and_eq_true] at ha
      rcases sub_object_inv h with ⟨cs, ps, rfl, hcs, hp⟩ | ⟨rfl, hp⟩
      · simp only [Shape.wf, Bool.and_eq_true] at hb
        rw [merger_object_object, merger_object_object]
        congr 1
        · have hM := sortedKeys_mergedContent c cs
          apply members_ext (sortedKeys_mergedContent _ _) hM
          intro k
          rw [mapGet_mergedContent hM hb.1, mapGet_mergedContent ha.1 hb.1]
          unfold objSub at hcs
          simp only [Bool.and_eq_true, List.all_eq_true] at hcs
          cases hv : mapGet k c with
          | none =>
            cases hvs : mapGet k cs with
            | none => rfl
            | some vs =>
              -- impossible: every key of cs is a key of c
              have := hcs.2 (k, vs) (mem_of_mapGet hvs)
              simp [lookupSubset_eq_mapGet, hv] at this
          | some v =>
            cases hvs : mapGet k cs with
            | none => simp [asOptional_idem]
            | some vs =>
              simp only
              have hsub := hcs.2 (k, vs) (mem_of_mapGet hvs)
              simp only [lookupSubset_eq_mapGet, hv] at hsub
              have : sizeOf v ≤ n := by
                have := sizeOf_lt_of_mapGet hv; simp at hn; omega
              rw [ih v this vs (wf_of_mapGet ha.2 hv) (wf_of_mapGet hb.2 hvs) hsub]
        · simp
      · simp [merger]
    | oneOf vs o =>
      rw [wf_oneOf_iff] at ha
      cases b with
      | null => simp [merger]
      | oneOf ws p =>
        simp only [merger]
        rw [setExtend_of_subset (sortedSet_setExtend ha.1) (fun x hx => mem_setExtend.2 (Or.inr hx))]
        simp
      | bool p => simp only [merger]; rw [addToOneOf_idem ha.1]
      | number p => simp only [merger]; rw [addToOneOf_idem ha.1]
      | string p => simp only [merger]; rw [addToOneOf_idem ha.1]
      | array t p => simp only [merger]; rw [addToOneOf_idem ha.1]
      | object c p => simp only [merger]; rw [addToOneOf_idem ha.1]
      | tuple c p => simp only [merger]; rw [addToOneOf_idem ha.1]
    | tuple es o =>
      simp only [Shape.wf] at ha
      rcases sub_tuple_inv h with ⟨ds, ps, rfl, hz, hl, hp⟩ | ⟨rfl, hp⟩
      · simp only [Shape.wf] at hb
        obtain ⟨folded, g1, g2, g3, _⟩ := pickAll_of_sub es ds hb hz hl
        have e1 : (es.length == ds.length) = true := by simp [hl]
        have e2 : (folded.length == ds.length) = true := by simp [g3, hl]
        simp only [merger, g1, e1]
        simp only [merger, g2, e2]
        simp
      · simp [merger]

theorem absorb_stable {a b : Shape} (ha : a.wf = true) (hb : b.wf = true) (h : isSubset b a = true) :
    merger (merger a b) b = merger a b := absorb_stable_aux (sizeOf a) a (Nat.le_refl _) b ha hb h

end ShapeVerif

namespace ShapeVerif
open Shape Std

theorem admits_asOptional_inv {v : Shape} {y : Doc} (hn : admits v .null = true)
    (h : admits v.asOptional y = true) : admits v y = true := by
  by_cases hy : y.isNull = true
  · have := isNull_eq hy; subst this; exact hn
  · have hy' : y.isNull = false := by simpa using hy
    have := admits_asNonOptional h hy'
    have e : v.asOptional.asNonOptional = v.asNonOptional := by
      cases v <;> rfl
    rw [e] at this
    exact admits_of_asNonOptional this

theorem admits_null_of_nullableSyn {v : Shape} (h : nullableSyn v = true) : admits v .null = true := by
  unfold nullableSyn at h
  simp only [Bool.or_eq_true] at h
  rcases h with h | h
  · exact admits_null_of_isOptional h
  · exact admits_null_of_isOneOfNull h

theorem admitsZip_folded : ∀ (folded es ds : List Shape) (xs : List Doc), wfList es = true →
    Pointwise (fun c ed => (c = ed.2 ∧ isSubset ed.1 ed.2 = true) ∨ c = ed.1) folded (es.zip ds) →
    zipAllSubset ds es = true → es.length = ds.length → folded.length = es.length →
    admitsZip folded xs = true → admitsZip es xs = true
  | [], [], [], xs, _, _, _, _, _, h => h
  | c :: folded, e :: es, d :: ds, xs, hw, hp, hz, hl, hf, h => by
    simp [wfList] at hw
    simp [zipAllSubset] at hz
    simp only [List.zip_cons_cons] at hp
    cases xs with
    | nil => simp [admitsZip] at h
    | cons x xs =>
      simp only [admitsZip, Bool.and_eq_true] at h ⊢
      refine ⟨?_, admitsZip_folded folded es ds xs hw.2 hp.2 hz.2 (by simpa using hl) (by simpa using hf) h.2⟩
      rcases hp.1 with ⟨rfl, _⟩ | rfl
      · exact subset_sound _ e hw.1 hz.1 x h.1
      · exact h.1
  | [], _ :: _, _, _, _, _, _, _, hf, _ => by simp at hf
  | _ :: _, [], _, _, _, _, _, _, hf, _ => by simp at hf
  | [], [], _ :: _, _, _, _, _, hl, _, _ => by simp at hl
  | _ :: _, _ :: _, [], _, _, _, _, hl, _, _ => by simp at hl

/-- **upper bound**: once `b ⊑ a`, the merge admits nothing that `a` does not admit -/
theorem absorbed_upper_aux (n : Nat) : ∀ a : Shape, sizeOf a ≤ n → ∀ b : Shape, a.wf = true → b.wf = true →
    isSubset b a = true → ∀ x, admits (merger a b) x = true → admits a x = true := by
  induction n with
  | zero => intro a h; cases a <;> simp at h
  | succ n ih =>
    intro a hn b ha hb h x hx
    cases a with
    | null => have := sub_null_inv h; subst this; exact hx
    | bool o =>
      rcases sub_bool_inv h with ⟨ps, rfl, hp⟩ | ⟨rfl, hp⟩
      · have : (o || ps) = o := by cases o <;> cases ps <;> simp_all
        simpa [merger, this] using hx
      · subst hp; simpa [merger] using hx
    | number o =>
      rcases sub_number_inv h with ⟨ps, rfl, hp⟩ | ⟨rfl, hp⟩
      · have : (o || ps) = o := by cases o <;> cases ps <;> simp_all
        simpa [merger, this] using hx
      · subst hp; simpa [merger] using hx
    | string o =>
      rcases sub_string_inv h with ⟨ps, rfl, hp⟩ | ⟨rfl, hp⟩
      · have : (o || ps) = o := by cases o <;> cases ps <;> simp_all
        simpa [merger, this] using hx
      · subst hp; simpa [merger] using hx
    | array t o =>
      simp only [Shape.wf] at ha
      rcases sub_array_inv h with ⟨ts, ps, rfl, hts, hp⟩ | ⟨es, ps, rfl, hes, hp⟩ | ⟨rfl, hp⟩
      · simp only [Shape.wf] at hb
        simp only [merger] at hx
        have hflag : (o || ps) = o := by cases o <;> cases ps <;> simp_all
        rw [hflag] at hx
        rcases admits_array_cases hx with ⟨rfl, ho⟩ | ⟨xs, rfl, hxs⟩
        · rw [admits_array_null]; exact ho
        · rw [admits_array_arr, List.all_eq_true] at *
          intro y hy
          exact ih t (by simp at hn; omega) ts ha hb hts y (hxs y hy)
      · simp only [Shape.wf] at hb
        simp only [merger] at hx
        have hflag : (o || ps) = o := by cases o <;> cases ps <;> simp_all
        rw [hflag] at hx
        rcases admits_array_cases hx with ⟨rfl, ho⟩ | ⟨xs, rfl, hxs⟩
        · rw [admits_array_null]; exact ho
        · rw [admits_array_arr, List.all_eq_true] at *
          intro y hy
          have hy' := hxs y hy
          rw [admits_oneOf] at hy'
          simp only [Bool.false_and, Bool.or_false] at hy'
          obtain ⟨v, hv, hvy⟩ := admitsAny_iff.1 hy'
          -- where does the variant come from?
          have hnullcase : (es.any isOptional || t.isOptional) = true → admits t .null = true := by
            intro hc
            simp only [Bool.or_eq_true] at hc
            rcases hc with hc | hc
            · obtain ⟨e, he, heo⟩ := List.any_eq_true.1 hc
              exact subset_sound e t ha (hes e he) .null (admits_null_of_isOptional heo)
            · exact admits_null_of_isOptional hc
          have hinit : ∀ w, w ∈ (if es.any isOptional || t.isOptional then setInsert Shape.null [] else []) →
              admits w y = true → admits t y = true := by
            intro w hw hwy
            by_cases hc : (es.any isOptional || t.isOptional) = true
            · simp only [hc, if_true] at hw
              simp [setInsert] at hw; subst hw
              cases y <;> simp [admits, Doc.isNull] at hwy
              exact hnullcase hc
            · have : (es.any isOptional || t.isOptional) = false := by simpa using hc
              simp [this] at hw
          rcases mem_arrayTupleVariants.1 hv with hv | ⟨e, he, rfl⟩
          · unfold arrayElemVariants at hv
            split at hv
            · rename_i inner io
              rcases mem_setExtend.1 hv with hv | hv
              · split at hv
                · rename_i hio
                  rcases mem_setInsert.1 hv with rfl | hv
                  · cases y <;> simp [admits, Doc.isNull] at hvy
                    simp [admits_oneOf, hio, Doc.isNull]
                  · exact hinit v hv hvy
                · exact hinit v hv hvy
              · exact admits_oneOf_of_mem hv hvy
            · rcases mem_setInsert.1 hv with rfl | hv
              · exact hvy
              · exact hinit v hv hvy
          · exact subset_sound e t ha (hes e he) y (admits_of_asNonOptional hvy)
      · subst hp; simpa [merger] using hx
    | object c o =>
      simp only [Shape.wf, Bool.and_eq_true] at ha
      rcases sub_object_inv h with ⟨cs, ps, rfl, hcs, hp⟩ | ⟨rfl, hp⟩
      · simp only [Shape.wf, Bool.and_eq_true] at hb
        rw [merger_object_object] at hx
        have hflag : (o || ps) = o := by cases o <;> cases ps <;> simp_all
        rw [hflag] at hx
        unfold objSub at hcs
        simp only [Bool.and_eq_true, List.all_eq_true] at hcs
        have hM := sortedKeys_mergedContent c cs
        rcases admits_object_cases hx with ⟨rfl, ho⟩ | ⟨ms, rfl, hms, habs⟩
        · rw [admits_object_null]; exact ho
        · rw [admits_object_obj, Bool.and_eq_true]
          rw [List.all_eq_true] at hms
          rw [absentOk_iff_mapGet hM] at habs
          -- per key: what the merged map holds, and why `c`'s value covers it
          have key : ∀ k v, mapGet k c = some v → ∃ m, mapGet k (mergedContent c cs) = some m ∧
              ∀ y, admits m y = true → admits v y = true := by
            intro k v hv
            rw [mapGet_mergedContent ha.1 hb.1, hv]
            cases hvs : mapGet k cs with
            | none =>
              refine ⟨_, rfl, ?_⟩
              intro y hy
              have hcond := hcs.1 (k, v) (mem_of_mapGet hv)
              simp only [Bool.or_eq_true] at hcond
              have hnull : admits v .null = true := by
                rcases hcond with (hk | ho) | hn'
                · obtain ⟨w, hw⟩ := mapContainsKey_iff.1 hk
                  have := mapGet_eq_some_of_mem hb.1 hw
                  rw [hvs] at this; cases this
                · exact admits_null_of_isOptional ho
                · exact admits_null_of_isOneOfNull hn'
              exact admits_asOptional_inv hnull hy
            | some vs =>
              refine ⟨_, rfl, ?_⟩
              intro y hy
              have hsub := hcs.2 (k, vs) (mem_of_mapGet hvs)
              simp only [lookupSubset_eq_mapGet, hv] at hsub
              have : sizeOf v ≤ n := by
                have := sizeOf_lt_of_mapGet hv; simp at hn; omega
              exact ih v this vs (wf_of_mapGet ha.2 hv) (wf_of_mapGet hb.2 hvs) hsub y hy
          have keys : ∀ k m, mapGet k (mergedContent c cs) = some m → ∃ v, mapGet k c = some v := by
            intro k m hm
            rw [mapGet_mergedContent ha.1 hb.1] at hm
            cases hv : mapGet k c with
            | some v => exact ⟨v, rfl⟩
            | none =>
              cases hvs : mapGet k cs with
              | none => simp [hv, hvs] at hm
              | some vs =>
                have := hcs.2 (k, vs) (mem_of_mapGet hvs)
                simp [lookupSubset_eq_mapGet, hv] at this
          constructor
          · rw [List.all_eq_true]
            intro kv hkv
            have := hms kv hkv
            simp only [admitsKey_eq_mapGet] at this ⊢
            cases hm : mapGet kv.1 (mergedContent c cs) with
            | none => simp [hm] at this
            | some m =>
              simp only [hm] at this
              obtain ⟨v, hv⟩ := keys kv.1 m hm
              obtain ⟨m', hm', hcov⟩ := key kv.1 v hv
              rw [hm] at hm'; cases hm'
              simp only [hv]; exact hcov kv.2 this
          · rw [absentOk_iff_mapGet ha.1]
            intro k v hv
            obtain ⟨m, hm, hcov⟩ := key k v hv
            rcases habs k m hm with h' | h'
            · exact Or.inl h'
            · exact Or.inr (hcov .null h')
      · subst hp; simpa [merger] using hx
    | oneOf vs o =>
      have haw := ha
      rw [wf_oneOf_iff] at ha
      have hsound := subset_sound b (.oneOf vs o) haw h
      cases b with
      | null =>
        simp only [merger] at hx
        rw [admits_oneOf] at hx ⊢
        simp only [Bool.or_eq_true, Bool.and_eq_true] at hx ⊢
        rcases hx with hx | ⟨_, hn'⟩
        · exact Or.inl hx
        · have := isNull_eq hn'; subst this
          have := hsound .null admits_null_null
          rw [admits_oneOf] at this
          simpa [Bool.or_eq_true, Bool.and_eq_true] using this
      | oneOf ws p =>
        simp only [merger] at hx
        rw [admits_oneOf, Bool.or_eq_true, Bool.and_eq_true] at hx
        rcases hx with hx | ⟨hf, hn'⟩
        · obtain ⟨v, hv, hvx⟩ := admitsAny_iff.1 hx
          rcases mem_setExtend.1 hv with hv | hv
          · exact admits_oneOf_of_mem hv hvx
          · exact hsound x (admits_oneOf_of_mem hv hvx)
        · have := isNull_eq hn'; subst this
          simp only [Bool.or_eq_true] at hf
          rcases hf with hf | hf
          · subst hf; simp [admits_oneOf, Doc.isNull]
          · subst hf; exact hsound .null (by simp [admits_oneOf, Doc.isNull])
      | bool p => exact upper_add haw hsound (by simpa [merger] using hx)
      | number p => exact upper_add haw hsound (by simpa [merger] using hx)
      | string p => exact upper_add haw hsound (by simpa [merger] using hx)
      | array t p => exact upper_add haw hsound (by simpa [merger] using hx)
      | object c p => exact upper_add haw hsound (by simpa [merger] using hx)
      | tuple c p => exact upper_add haw hsound (by simpa [merger] using hx)
    | tuple es o =>
      simp only [Shape.wf] at ha
      rcases sub_tuple_inv h with ⟨ds, ps, rfl, hz, hl, hp⟩ | ⟨rfl, hp⟩
      · simp only [Shape.wf] at hb
        obtain ⟨folded, g1, _, g3, g4⟩ := pickAll_of_sub es ds hb hz hl
        have e1 : (es.length == ds.length) = true := by simp [hl]
        have hflag : (o || ps) = o := by cases o <;> cases ps <;> simp_all
        simp only [merger, g1, e1, hflag] at hx
        rcases admits_tuple_cases hx with ⟨rfl, ho⟩ | ⟨xs, rfl, hxs⟩
        · rw [admits_tuple_null]; exact ho
        · rw [admits_tuple_arr]
          exact admitsZip_folded folded es ds xs ha g4 hz hl.symm g3 hxs
      · subst hp; simpa [merger] using hx
where
  upper_add {b : Shape} {vs : List Shape} {o : Bool} {x : Doc} (_haw : (Shape.oneOf vs o).wf = true)
      (hsound : ∀ d, admits b d = true → admits (.oneOf vs o) d = true)
      (hx : admits (.oneOf (addToOneOf b vs) o) x = true) : admits (.oneOf vs o) x = true := by
    rw [admits_oneOf, Bool.or_eq_true, Bool.and_eq_true] at hx
    rcases hx with hx | ⟨hf, hn'⟩
    · obtain ⟨v, hv, hvx⟩ := admitsAny_iff.1 hx
      unfold addToOneOf at hv
      simp only at hv
      rcases mem_setInsert.1 hv with rfl | hv
      · exact hsound x (admits_of_asNonOptional hvx)
      · split at hv
        · rename_i hc
          rcases mem_setInsert.1 hv with rfl | hv
          · cases x <;> simp [admits, Doc.isNull] at hvx
            simp only [Bool.and_eq_true] at hc
            exact hsound .null (admits_null_of_isOptional hc.1)
          · exact admits_oneOf_of_mem hv hvx
        · exact admits_oneOf_of_mem hv hvx
    · subst hf; have := isNull_eq hn'; subst this; simp [admits_oneOf, Doc.isNull]

theorem absorbed_upper {a b : Shape} (ha : a.wf = true) (hb : b.wf = true) (h : isSubset b a = true) {x : Doc}
    (hx : admits (merger a b) x = true) : admits a x = true :=
  absorbed_upper_aux (sizeOf a) a (Nat.le_refl _) b ha hb h x hx

end ShapeVerif
