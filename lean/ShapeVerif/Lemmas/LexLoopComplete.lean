/-
Lexer completeness: a text cut into valid lexemes whose grammar tokens respect the follow condition
and the depth bound is tokenized without diagnostics into the same grammar tokens.
-/
import ShapeVerif.Lemmas.LexStep
import ShapeVerif.Lemmas.ParseClean
namespace ShapeVerif

def allWs (w : List Char) : Prop := ∀ c ∈ w, Rfc.isWs c = true

/-- the text spells the grammar tokens `nts`, with whitespace anywhere between them -/
inductive Spell : Nat → List Token → List Char → Prop
  | done {pos : Nat} {w : List Char} : allWs w → Spell pos [] w
  | tok {pos : Nat} {w txt rest : List Char} {t : Token} {nts : List Token} : allWs w →
      t.start = pos + utf8Len w → t.stop = t.start + utf8Len txt → isGrammarKind t.kind = true →
      lexemeOk t.kind txt = true → Spell t.stop nts rest → Spell pos (t :: nts) (w ++ txt ++ rest)

theorem Spell.prepend {pos : Nat} {w0 : List Char} (h0 : allWs w0) :
    ∀ {nts : List Token} {cs : List Char}, Spell (pos + utf8Len w0) nts cs → Spell pos nts (w0 ++ cs) := by
  intro nts cs h
  cases h with
  | done hw => exact .done (by intro c hc; rcases List.mem_append.1 hc with h | h; exact h0 c h; exact hw c h)
  | @tok _ w txt rest t nts hw hs he hk hv hrest =>
    have : w0 ++ (w ++ txt ++ rest) = (w0 ++ w) ++ txt ++ rest := by simp
    rw [this]
    exact .tok (by intro c hc; rcases List.mem_append.1 hc with h | h; exact h0 c h; exact hw c h)
      (by rw [hs]; simp; omega) he hk hv hrest

theorem grammarKind_iff (k : Tok) : isGrammarKind k = true ↔ (isSkipTok k = false ∧ k ≠ .eof) := by
  cases k <;> simp [isGrammarKind, isSkipTok]

theorem spell_of_tiles : ∀ (toks : List Token) (pos : Nat) (cs : List Char), TilesFrom pos toks cs →
    Spell pos (sig toks) cs
  | [], pos, cs, h => by
    have : cs = [] := h
    subst this
    exact .done (by intro c hc; cases hc)
  | t :: ts, pos, cs, h => by
    obtain ⟨txt, rest, rfl, hs, he, hv, hrest⟩ := h
    have ih := spell_of_tiles ts t.stop rest hrest
    by_cases hsk : isSkipTok t.kind = true
    · -- a whitespace lexeme
      have hk : t.kind = .ws ∨ t.kind = .nl := by
        simp only [isSkipTok, Bool.or_eq_true, beq_iff_eq] at hsk
        rcases hsk with (h | h) | h
        · rw [h] at hv; simp [lexemeOk] at hv
        · exact .inl h
        · exact .inr h
      have hw : allWs txt := by
        rcases hk with h | h <;> (rw [h] at hv; simp only [lexemeOk, Bool.and_eq_true, List.all_eq_true] at hv; exact hv.2)
      have : sig (t :: ts) = sig ts := by simp [sig, hsk]
      rw [this]
      exact Spell.prepend hw (by rw [← he]; exact ih)
    · have hsk' : isSkipTok t.kind = false := by simpa using hsk
      have hne : t.kind ≠ .eof := by intro h; rw [h] at hv; simp [lexemeOk] at hv
      have : sig (t :: ts) = t :: sig ts := by simp [sig, hsk']
      rw [this]
      have := Spell.tok (pos := pos) (w := []) (txt := txt) (rest := rest) (t := t) (nts := sig ts)
        (by intro c hc; cases hc) (by simpa using hs) (by rw [he, hs]) ((grammarKind_iff _).2 ⟨hsk', hne⟩) hv ih
      simpa using this

/-! ### the follow condition, from the grammar -/

def isCloser (k : Tok) : Bool := k == .comma || k == .rbrak || k == .rbrace

def adjOk : List Token → Bool
  | a :: b :: r => (!needsFollow a.kind || isCloser b.kind) && adjOk (b :: r)
  | _ => true

theorem adjOk_cons_noFollow {a : Token} {l : List Token} (ha : needsFollow a.kind = false) (hl : adjOk l = true) :
    adjOk (a :: l) = true := by
  cases l with
  | nil => rfl
  | cons b r => simp [adjOk, ha, hl]

theorem adjOk_cons_closer {a b : Token} {r : List Token} (hb : isCloser b.kind = true) (hl : adjOk (b :: r) = true) :
    adjOk (a :: b :: r) = true := by
  simp [adjOk, hb]; exact hl

def CloserLed (r : List Token) : Prop := ∀ b tl, r = b :: tl → isCloser b.kind = true

theorem lit_adj {t : Token} (r : List Token) (hr : adjOk r = true) (hc : CloserLed r) :
    adjOk ([t] ++ r) = true := by
  cases r with
  | nil => rfl
  | cons b tl => exact adjOk_cons_closer (hc b tl rfl) hr

variable {key : Token → String}

mutual
theorem value_adj : ∀ {ph : List Token} {d : Doc}, TValue key ph d → ∀ r, adjOk r = true → CloserLed r →
    adjOk (ph ++ r) = true
  | _, _, .null hk, r, hr, hc => lit_adj r hr hc
  | _, _, .tru hk, r, hr, hc => lit_adj r hr hc
  | _, _, .fls hk, r, hr, hc => lit_adj r hr hc
  | _, _, .num hk, r, hr, hc => lit_adj r hr hc
  | _, _, .str hk, r, hr, hc => lit_adj r hr hc
  | _, _, .arrE hl hr', r, hr, hc => by
    simp only [List.cons_append, List.nil_append]
    exact adjOk_cons_noFollow (by rw [hl]; rfl) (adjOk_cons_noFollow (by rw [hr']; rfl) hr)
  | _, _, @TValue.arr _ l rt ts xs hl hr' he, r, hr, hc => by
    have h1 : adjOk ([rt] ++ r) = true := adjOk_cons_noFollow (by rw [hr']; rfl) hr
    have h2 := elems_adj he ([rt] ++ r) h1 (by intro b tl e; simp at e; rw [← e.1, hr']; rfl)
    simp only [List.cons_append, List.append_assoc]
    exact adjOk_cons_noFollow (by rw [hl]; rfl) h2
  | _, _, .objE hl hr', r, hr, hc => by
    simp only [List.cons_append, List.nil_append]
    exact adjOk_cons_noFollow (by rw [hl]; rfl) (adjOk_cons_noFollow (by rw [hr']; rfl) hr)
  | _, _, @TValue.obj _ l rt ts ms hl hr' hm, r, hr, hc => by
    have h1 : adjOk ([rt] ++ r) = true := adjOk_cons_noFollow (by rw [hr']; rfl) hr
    have h2 := members_adj hm ([rt] ++ r) h1 (by intro b tl e; simp at e; rw [← e.1, hr']; rfl)
    simp only [List.cons_append, List.append_assoc]
    exact adjOk_cons_noFollow (by rw [hl]; rfl) h2
theorem elems_adj : ∀ {ts : List Token} {xs : List Doc}, TElems key ts xs → ∀ r, adjOk r = true → CloserLed r →
    adjOk (ts ++ r) = true
  | _, _, .one hv, r, hr, hc => value_adj hv r hr hc
  | _, _, @TElems.cons _ c ts rest x xs hc' hv hrest, r, hr, hc => by
    have h1 := elems_adj hrest r hr hc
    have h2 : adjOk (c :: (rest ++ r)) = true := adjOk_cons_noFollow (by rw [hc']; rfl) h1
    have := value_adj hv (c :: (rest ++ r)) h2 (by intro b tl e; simp at e; rw [← e.1, hc']; rfl)
    simpa using this
theorem members_adj : ∀ {ts : List Token} {ms : List (String × Doc)}, TMembers key ts ms → ∀ r, adjOk r = true →
    CloserLed r → adjOk (ts ++ r) = true
  | _, _, @TMembers.one _ k c ts v hk hc' hv, r, hr, hc => by
    have := value_adj hv r hr hc
    simp only [List.cons_append]
    exact adjOk_cons_noFollow (by rw [hk]; rfl) (adjOk_cons_noFollow (by rw [hc']; rfl) this)
  | _, _, @TMembers.cons _ k c m ts rest v ms hk hc' hm hv hrest, r, hr, hc => by
    have h1 := members_adj hrest r hr hc
    have h2 : adjOk (m :: (rest ++ r)) = true := adjOk_cons_noFollow (by rw [hm]; rfl) h1
    have := value_adj hv (m :: (rest ++ r)) h2 (by intro b tl e; simp at e; rw [← e.1, hm]; rfl)
    simp only [List.cons_append, List.append_assoc]
    exact adjOk_cons_noFollow (by rw [hk]; rfl) (adjOk_cons_noFollow (by rw [hc']; rfl) (by simpa using this))
end

end ShapeVerif

namespace ShapeVerif

theorem lexOne_ws {c : Char} (hc : Rfc.isWs c = true) (cs : List Char) :
    (lexOne (c :: cs)).2.1 = none ∧ ((lexOne (c :: cs)).1 = .ws ∨ (lexOne (c :: cs)).1 = .nl) ∧
      allWs (lexOne (c :: cs)).2.2.1 := by
  simp only [Rfc.isWs, Bool.or_eq_true, beq_iff_eq] at hc
  rcases hc with ((rfl | rfl) | rfl) | rfl
  · refine ⟨by simp [lexOne, isWsChar], .inl (by simp [lexOne, isWsChar]), ?_⟩
    intro x hx
    simp only [lexOne, isWsChar, beq_self_eq_true, Bool.true_or, if_true] at hx
    rcases List.mem_cons.1 hx with rfl | hx
    · decide
    · exact isWs_of_isWsChar (takeWhileC_all _ cs x hx)
  · refine ⟨by simp [lexOne, isWsChar], .inl (by simp [lexOne, isWsChar]), ?_⟩
    intro x hx
    simp only [lexOne, isWsChar, beq_self_eq_true, Bool.or_true, if_true] at hx
    rcases List.mem_cons.1 hx with rfl | hx
    · decide
    · exact isWs_of_isWsChar (takeWhileC_all _ cs x hx)
  · refine ⟨by simp [lexOne, isWsChar], .inr (by simp [lexOne, isWsChar]), ?_⟩
    intro x hx
    simp [lexOne, isWsChar] at hx
    subst hx; decide
  · have e1 : isWsChar '\r' = false := by decide
    have e2 : ('\r' == '\n') = false := by decide
    simp only [lexOne, e1, e2, Bool.false_eq_true, if_false, beq_self_eq_true, if_true]
    split
    · refine ⟨rfl, .inr rfl, ?_⟩
      intro x hx; simp at hx; rcases hx with rfl | rfl <;> decide
    · refine ⟨rfl, .inr rfl, ?_⟩
      intro x hx; simp at hx; subst hx; decide

theorem lexeme_head {k : Tok} {txt : List Char} (hk : isGrammarKind k = true) (hv : lexemeOk k txt = true) :
    ∃ c tl, txt = c :: tl ∧ Rfc.isWs c = false := by
  cases k with
  | eof | error | ws | nl => simp [isGrammarKind] at hk
  | lbrace => have : txt = ['{'] := by simpa [lexemeOk] using hv
              subst this; exact ⟨_, _, rfl, by decide⟩
  | rbrace => have : txt = ['}'] := by simpa [lexemeOk] using hv
              subst this; exact ⟨_, _, rfl, by decide⟩
  | lbrak => have : txt = ['['] := by simpa [lexemeOk] using hv
             subst this; exact ⟨_, _, rfl, by decide⟩
  | rbrak => have : txt = [']'] := by simpa [lexemeOk] using hv
             subst this; exact ⟨_, _, rfl, by decide⟩
  | comma => have : txt = [','] := by simpa [lexemeOk] using hv
             subst this; exact ⟨_, _, rfl, by decide⟩
  | colon => have : txt = [':'] := by simpa [lexemeOk] using hv
             subst this; exact ⟨_, _, rfl, by decide⟩
  | true_ => have : txt = ['t', 'r', 'u', 'e'] := by simpa [lexemeOk] using hv
             subst this; exact ⟨_, _, rfl, by decide⟩
  | false_ => have : txt = ['f', 'a', 'l', 's', 'e'] := by simpa [lexemeOk] using hv
              subst this; exact ⟨_, _, rfl, by decide⟩
  | null_ => have : txt = ['n', 'u', 'l', 'l'] := by simpa [lexemeOk] using hv
             subst this; exact ⟨_, _, rfl, by decide⟩
  | number =>
    have hnum : Rfc.number txt = some (txt, []) := by simpa [lexemeOk] using hv
    obtain ⟨c, tl, rfl, hc⟩ := number_head hnum
    refine ⟨c, tl, rfl, ?_⟩
    rcases hc with rfl | hd
    · decide
    · cases hw : Rfc.isWs c with
      | false => rfl
      | true =>
        simp only [Rfc.isWs, Bool.or_eq_true, beq_iff_eq] at hw
        rcases hw with ((rfl | rfl) | rfl) | rfl <;> simp [isDigitC] at hd
  | string =>
    simp only [lexemeOk] at hv
    cases txt with
    | nil => simp at hv
    | cons q r =>
      by_cases hq : q = '"'
      · subst hq; exact ⟨_, _, rfl, by decide⟩
      · exfalso
        revert hv
        split
        · rename_i heq; simp only [List.cons.injEq] at heq; exact absurd heq.1 hq
        · simp

/-- an all-whitespace prefix of a text lies inside the leading whitespace of any spelling of it -/
theorem ws_prefix : ∀ (a b w x : List Char), a ++ b = w ++ x → allWs a → allWs w →
    (∀ c tl, x = c :: tl → Rfc.isWs c = false) → x ≠ [] → ∃ w', w = a ++ w' ∧ b = w' ++ x
  | [], b, w, x, h, _, _, _, _ => ⟨w, rfl, by simpa using h⟩
  | c :: a, b, [], x, h, ha, _, hx, _ => by
    exfalso
    simp only [List.cons_append, List.nil_append] at h
    have := hx c (a ++ b) h.symm
    rw [ha c (by simp)] at this; cases this
  | c :: a, b, d :: w, x, h, ha, hw, hx, hne => by
    simp only [List.cons_append, List.cons.injEq] at h
    obtain ⟨rfl, h⟩ := h
    obtain ⟨w', e1, e2⟩ := ws_prefix a b w x h (fun y hy => ha y (by simp [hy])) (fun y hy => hw y (by simp [hy])) hx hne
    exact ⟨w', by rw [e1]; rfl, e2⟩

theorem spell_strip {pos : Nat} {nts : List Token} : ∀ {a b : List Char}, allWs a →
    Spell pos nts (a ++ b) → Spell (pos + utf8Len a) nts b := by
  intro a b ha h
  generalize hcs : a ++ b = cs at h
  cases h with
  | done hw =>
    exact .done (by intro c hc; exact hw c (by rw [← hcs]; simp [hc]))
  | @tok _ w txt rest t nts hw hs he hk hv hrest =>
    obtain ⟨c, tl, htxt, hcw⟩ := lexeme_head hk hv
    have := ws_prefix a b w (txt ++ rest) (by rw [hcs]; simp) ha hw
      (by intro c' tl' e; rw [htxt] at e; simp only [List.cons_append, List.cons.injEq] at e; rw [← e.1]; exact hcw)
      (by rw [htxt]; simp)
    obtain ⟨w', e1, e2⟩ := this
    rw [e2, ← List.append_assoc]
    exact .tok (fun y hy => hw y (by rw [e1]; simp [hy])) (by rw [hs, e1]; simp; omega) he hk hv hrest

end ShapeVerif

namespace ShapeVerif

theorem follow_of_spell {pos : Nat} {t : Token} {nts : List Token} {rest : List Char}
    (hadj : adjOk (t :: nts) = true) (hf : needsFollow t.kind = true) (hs : Spell pos nts rest) : ValueFollow rest := by
  intro c tl e
  cases hs with
  | done hw => exact .inl (hw c (by rw [e]; simp))
  | @tok _ w txt rest' t2 nts' hw hs2 he hk hv hrest =>
    cases w with
    | cons a w' =>
      simp only [List.cons_append, List.cons.injEq] at e
      exact .inl (by rw [← e.1]; exact hw a (by simp))
    | nil =>
      simp only [List.nil_append] at e
      have hcl : isCloser t2.kind = true := by
        simp only [adjOk, hf, Bool.not_true, Bool.false_or, Bool.and_eq_true] at hadj
        exact hadj.1
      simp only [isCloser, Bool.or_eq_true, beq_iff_eq] at hcl
      rcases hcl with (h | h) | h <;> rw [h] at hv
      · have : txt = [','] := by simpa [lexemeOk] using hv
        subst this; simp only [List.cons_append, List.nil_append, List.cons.injEq] at e
        exact .inr (.inl e.1.symm)
      · have : txt = [']'] := by simpa [lexemeOk] using hv
        subst this; simp only [List.cons_append, List.nil_append, List.cons.injEq] at e
        exact .inr (.inr (.inl e.1.symm))
      · have : txt = ['}'] := by simpa [lexemeOk] using hv
        subst this; simp only [List.cons_append, List.nil_append, List.cons.injEq] at e
        exact .inr (.inr (.inr e.1.symm))

theorem adjOk_tail {t : Token} {nts : List Token} (h : adjOk (t :: nts) = true) : adjOk nts = true := by
  cases nts with
  | nil => rfl
  | cons b r => simp only [adjOk, Bool.and_eq_true] at h; exact h.2

theorem ws_kind_counts {k : Tok} (hk : k = .ws ∨ k = .nl) (nb nk : Int) :
    (if k == Tok.lbrace then nb + 1 else if k == Tok.rbrace then nb - 1 else nb) = nb ∧
    (if k == Tok.lbrak then nk + 1 else if k == Tok.rbrak then nk - 1 else nk) = nk ∧ (k == Tok.string) = false := by
  rcases hk with rfl | rfl <;> simp

theorem spell_nil {pos : Nat} {nts : List Token} (h : Spell pos nts []) : nts = [] := by
  generalize hcs : ([] : List Char) = cs at h
  cases h with
  | done _ => rfl
  | @tok _ w txt rest t nts' hw hs he hk hv hrest =>
    exfalso
    obtain ⟨c, tl, htxt, _⟩ := lexeme_head hk hv
    rw [htxt] at hcs; simp at hcs

/-- **lexer completeness** -/
theorem lexLoop_complete : ∀ (fuel : Nat) (cs : List Char) (pos : Nat) (nb nk : Int) (toks nts : List Token),
    cs.length ≤ fuel → Spell pos nts cs → adjOk nts = true → nb + nk ≤ 256 →
    depthFrom (nb + nk) (nts.map (·.kind)) = true →
    ∃ out, lexLoop fuel cs pos nb nk toks [] = ⟨toks.reverse ++ out, []⟩ ∧ sig out = nts := by
  intro fuel
  induction fuel with
  | zero =>
    intro cs pos nb nk toks nts hlen hsp _ _ _
    have : cs = [] := List.eq_nil_of_length_eq_zero (by omega)
    subst this
    have := spell_nil hsp
    subst this
    exact ⟨[], by simp [lexLoop], rfl⟩
  | succ fuel ih =>
    intro cs pos nb nk toks nts hlen hsp hadj hdepth0 hdepth
    cases cs with
    | nil =>
      have := spell_nil hsp
      subst this
      exact ⟨[], by simp [lexLoop], rfl⟩
    | cons c cs =>
      -- is the first character whitespace?
      by_cases hws : Rfc.isWs c = true
      · -- a skipped token; the spelling loses an all-whitespace prefix
        obtain ⟨hdk, hkind, hall⟩ := lexOne_ws hws cs
        obtain ⟨hsplit, hne, _⟩ := lexOne_spec c cs
        simp only [lexLoop]
        generalize lexOne (c :: cs) = r at hdk hkind hall hsplit hne
        obtain ⟨kind, dk, text, rest⟩ := r
        simp only at hdk hkind hall hsplit hne
        subst hdk
        obtain ⟨e1, e2, e3⟩ := ws_kind_counts hkind nb nk
        simp only [e1, e2, e3, Bool.false_eq_true, if_false]
        have hgt : ¬ (nb + nk > 256) := by omega
        simp only [hgt, if_false]
        have hrl : rest.length ≤ fuel := by
          have : (text ++ rest).length = (c :: cs).length := by rw [hsplit]
          have : 1 ≤ text.length := by cases text with | nil => exact absurd rfl hne | cons _ _ => simp
          simp at *; omega
        have hsp' : Spell (pos + utf8Len text) nts rest := spell_strip hall (by rw [hsplit]; exact hsp)
        obtain ⟨out, h1, h2⟩ := ih rest (pos + utf8Len text) nb nk (⟨kind, pos, pos + utf8Len text⟩ :: toks) nts
          hrl hsp' hadj hdepth0 hdepth
        refine ⟨⟨kind, pos, pos + utf8Len text⟩ :: out, by rw [h1]; simp, ?_⟩
        have : isSkipTok kind = true := by rcases hkind with rfl | rfl <;> rfl
        simp [sig, this]
        exact h2
      · -- a grammar token
        have hws' : Rfc.isWs c = false := by simpa using hws
        generalize hcs : c :: cs = cs0 at hsp hlen
        cases hsp with
        | done hw => exact absurd (hw c (by rw [← hcs]; simp)) (by simp [hws'])
        | @tok _ w txt rest t nts' hw hs he hk hv hrest =>
          have heq : w ++ txt ++ rest = c :: cs := hcs.symm
          -- no leading whitespace
          have hwnil : w = [] := by
            cases w with
            | nil => rfl
            | cons a w' =>
              exfalso
              simp only [List.cons_append, List.cons.injEq] at heq
              have := hw a (by simp)
              rw [heq.1, hws'] at this; cases this
          subst hwnil
          simp only [List.nil_append, utf8Len_nil, Nat.add_zero] at heq hs
          have hfollow : needsFollow t.kind = true → ValueFollow rest :=
            fun hf => follow_of_spell hadj hf hrest
          obtain ⟨c', cs', hcc, hlex, hchk⟩ := lexOne_complete t.kind txt rest pos hk hv hfollow
          show ∃ out, lexLoop (fuel + 1) ([] ++ txt ++ rest) pos nb nk toks [] = _ ∧ _
          rw [List.nil_append, hcc]
          simp only [lexLoop, hlex]
          -- string check and depth
          have hdiags : (if t.kind == .string then (checkString pos txt).reverse ++ [] else ([] : List Diag)) = [] := by
            split
            · rename_i hstr; rw [hchk (by simpa using hstr)]; rfl
            · rfl
          simp only [hdiags]
          simp only [List.map_cons, depthFrom, Bool.and_eq_true, decide_eq_true_eq] at hdepth
          have hstep := depth_step t.kind nb nk
          generalize (if t.kind == Tok.lbrace then nb + 1 else if t.kind == Tok.rbrace then nb - 1 else nb) = nb' at hstep ⊢
          generalize (if t.kind == Tok.lbrak then nk + 1 else if t.kind == Tok.rbrak then nk - 1 else nk) = nk' at hstep ⊢
          have e : (if (t.kind == Tok.lbrace || t.kind == Tok.lbrak) = true then nb + nk + 1
              else if (t.kind == Tok.rbrace || t.kind == Tok.rbrak) = true then nb + nk - 1 else nb + nk) = nb' + nk' := hstep
          rw [e] at hdepth
          have hgt : ¬ (nb' + nk' > 256) := by omega
          simp only [hgt, if_false]
          have hrl : rest.length ≤ fuel := by
            obtain ⟨c2, tl2, htxt, _⟩ := lexeme_head hk hv
            rw [htxt] at hlen; simp at hlen; omega
          have htok : (⟨t.kind, pos, pos + utf8Len txt⟩ : Token) = t := by
            cases t; simp only [Token.mk.injEq, true_and] at *; exact ⟨hs.symm, by rw [he, hs]⟩
          rw [htok]
          obtain ⟨out, h1, h2⟩ := ih rest (pos + utf8Len txt) nb' nk' (t :: toks) nts' hrl
            (by rw [← hs, ← he]; exact hrest) (adjOk_tail hadj) hdepth.1 hdepth.2
          refine ⟨t :: out, by rw [h1]; simp, ?_⟩
          have : isSkipTok t.kind = false := ((grammarKind_iff _).1 hk).1
          simp [sig, this]
          exact h2

end ShapeVerif
