/-
A `String` token that raises no diagnostic is an RFC 8259 string.
-/
import ShapeVerif.Lemmas.LexNumber
namespace ShapeVerif

theorem scanString_ordinary {c : Char} (h1 : c ≠ '"') (h2 : c ≠ '\\') (r : List Char) :
    scanString (c :: r) = (c :: (scanString r).1, (scanString r).2.1, (scanString r).2.2) := by
  suffices h : ∀ x, x = scanString r → scanString (c :: r) = (c :: x.1, x.2.1, x.2.2) from h _ rfl
  intro x hx
  unfold scanString
  split
  · rename_i heq; simp only [List.cons.injEq] at heq; exact absurd heq.1 h1
  · rename_i heq; simp only [List.cons.injEq] at heq; exact absurd heq.1 h2
  · rename_i heq; simp only [List.cons.injEq] at heq; exact absurd heq.1 h2
  · rename_i heq
    simp only [List.cons.injEq] at heq
    obtain ⟨rfl, rfl⟩ := heq
    rw [hx]
  · rename_i heq; simp at heq

theorem scanString_escape (e : Char) (r : List Char) :
    scanString ('\\' :: e :: r) = ('\\' :: e :: (scanString r).1, (scanString r).2.1, (scanString r).2.2) := by
  suffices h : ∀ x, x = scanString r → scanString ('\\' :: e :: r) = ('\\' :: e :: x.1, x.2.1, x.2.2) from h _ rfl
  intro x hx
  unfold scanString
  split
  · rename_i heq; simp at heq
  · rename_i heq
    simp only [List.cons.injEq, true_and] at heq
    obtain ⟨rfl, rfl⟩ := heq
    rw [hx]
  · rename_i heq; simp at heq
  · rename_i h _ heq
    simp only [List.cons.injEq] at heq
    obtain ⟨rfl, rfl⟩ := heq
    exact (h e r rfl rfl).elim
  · rename_i heq; simp at heq

theorem scanString_quote (r : List Char) : scanString ('"' :: r) = (['"'], r, true) := by
  unfold scanString
  split
  · rename_i heq; simp only [List.cons.injEq, true_and] at heq; rw [heq]
  · rename_i heq; simp at heq
  · rename_i heq; simp at heq
  · rename_i h1 _ _ heq
    simp only [List.cons.injEq] at heq
    exact (h1 heq.1.symm).elim
  · rename_i heq; simp at heq

theorem isHexC_ordinary {h : Char} (hh : isHexC h = true) : h ≠ '"' ∧ h ≠ '\\' := by
  constructor <;> (rintro rfl; simp [isHexC, isDigitC] at hh)

theorem isHex_eq (c : Char) : Rfc.isHex c = isHexC c := rfl

/-- in the `\uXXXX` state, no diagnostic means the missing hex digits are there -/
theorem hex_no_diag (start iu : Nat) : ∀ (need done : Nat) (pos : Nat) (t : List Char), done + need = 4 → 0 < need →
    checkStringGo start (.hex iu done) pos t = [] →
    ∃ hs t2 pos', hs.length = need ∧ (∀ h ∈ hs, isHexC h = true) ∧ t = hs ++ t2 ∧
      checkStringGo start .normal pos' t2 = []
  | 0, _, _, _, _, h0, _ => by omega
  | need + 1, done, pos, [], _, _, h => by simp [checkStringGo] at h
  | need + 1, done, pos, h :: rest, hsum, _, hd => by
    simp only [checkStringGo] at hd
    split at hd
    · rename_i hhex
      split at hd
      · rename_i h4
        have : need = 0 := by simp at h4; omega
        subst this
        exact ⟨[h], rest, _, rfl, by simpa using hhex, rfl, hd⟩
      · rename_i h4
        have hn : 0 < need := by simp at h4; omega
        obtain ⟨hs, t2, pos', hl, hall, ht, hnd⟩ := hex_no_diag start iu need (done + 1) _ rest (by omega) hn hd
        exact ⟨h :: hs, t2, pos', by simp [hl], by
          intro x hx; rcases List.mem_cons.1 hx with rfl | hx
          · exact hhex
          · exact hall x hx, by rw [ht]; rfl, hnd⟩
    · simp at hd

theorem scanString_hexes : ∀ (hs r : List Char), (∀ h ∈ hs, isHexC h = true) →
    scanString (hs ++ r) = (hs ++ (scanString r).1, (scanString r).2.1, (scanString r).2.2)
  | [], r, _ => by simp
  | h :: hs, r, hall => by
    have ho := isHexC_ordinary (hall h (by simp))
    simp only [List.cons_append]
    rw [scanString_ordinary ho.1 ho.2, scanString_hexes hs r (fun x hx => hall x (by simp [hx]))]

theorem scanString_split_hexes : ∀ (hs t3 r2 : List Char), (∀ h ∈ hs, isHexC h = true) →
    (scanString r2).1 = hs ++ t3 →
    ∃ r3, r2 = hs ++ r3 ∧ (scanString r3).1 = t3 ∧ (scanString r3).2.1 = (scanString r2).2.1 ∧
      (scanString r3).2.2 = (scanString r2).2.2
  | [], t3, r2, _, h => ⟨r2, rfl, by simpa using h, rfl, rfl⟩
  | h :: hs, t3, r2, hall, ht => by
    have ho := isHexC_ordinary (hall h (by simp))
    have happ := scanString_append r2
    rw [ht] at happ
    cases r2 with
    | nil => simp at happ
    | cons c r2' =>
      simp only [List.cons_append, List.cons.injEq] at happ
      obtain ⟨rfl, _⟩ := happ
      rw [scanString_ordinary ho.1 ho.2] at ht ⊢
      simp only [List.cons_append, List.cons.injEq, true_and] at ht
      obtain ⟨r3, rfl, h1, h2, h3⟩ := scanString_split_hexes hs t3 r2' (fun x hx => hall x (by simp [hx])) ht
      exact ⟨r3, rfl, h1, h2, h3⟩

theorem dropLast_cons_of_ne_nil {α : Type} (a : α) {l : List α} (h : l ≠ []) :
    (a :: l).dropLast = a :: l.dropLast := by
  cases l with
  | nil => exact absurd rfl h
  | cons b l => rfl

theorem string_valid_aux (start : Nat) (n : Nat) : ∀ (r : List Char), r.length ≤ n → (scanString r).2.2 = true →
    ∀ pos, checkStringGo start .normal pos (scanString r).1 = [] →
    Rfc.stringBody r = some ((scanString r).1.dropLast, (scanString r).2.1) := by
  induction n with
  | zero =>
    intro r hr hc
    cases r with
    | nil => simp [scanString] at hc
    | cons c r => simp at hr
  | succ n ih =>
    intro r hr hc pos hd
    cases r with
    | nil => simp [scanString] at hc
    | cons c r1 =>
      by_cases hq : c = '"'
      · subst hq
        rw [scanString_quote]
        unfold Rfc.stringBody
        simp
      by_cases hb : c = '\\'
      · subst hb
        cases r1 with
        | nil => simp [scanString] at hc
        | cons e r2 =>
          rw [scanString_escape] at hc hd ⊢
          simp only at hc hd ⊢
          have hne : (scanString r2).1 ≠ [] := scanString_closed_ne_nil r2 hc
          -- the checker: backslash, then `e`
          have hcheck : checkStringGo start .esc (pos + 1) (e :: (scanString r2).1) = [] := by
            simpa [checkStringGo] using hd
          simp only [checkStringGo] at hcheck
          have hlen : r2.length ≤ n := by simp at hr; omega
          unfold Rfc.stringBody
          simp only [show ('\\' == '"') = false by decide, Bool.false_eq_true, if_false,
            show ('\\' == '\\') = true by decide, if_true]
          split at hcheck
          · -- simple escape
            rename_i hsimple
            have hnu : (e == 'u') = false := by
              cases he : (e == 'u') with
              | false => rfl
              | true =>
                have : e = 'u' := by simpa using he
                subst this; simp at hsimple
            have hse : Rfc.isSimpleEscape e = true := by simpa [Rfc.isSimpleEscape] using hsimple
            have := ih r2 hlen hc _ hcheck
            simp only [hnu, Bool.false_eq_true, if_false, hse, if_true, this]
            rw [dropLast_cons_of_ne_nil _ (by simp), dropLast_cons_of_ne_nil _ hne]
          · split at hcheck
            · -- unicode escape
              rename_i hu
              have heu : e = 'u' := by simpa using hu
              subst heu
              obtain ⟨hs, t3, pos', hl, hall, ht, hnd⟩ := hex_no_diag start _ 4 0 _ _ rfl (by omega) hcheck
              -- the same four characters sit in the input
              obtain ⟨r3, rfl, h3a, h3b, h3c⟩ := scanString_split_hexes hs t3 r2 hall ht
              have hcl : (scanString r3).2.2 = true := by rw [h3c]; exact hc
              have hlen3 : r3.length ≤ n := by simp at hlen; omega
              have hih := ih r3 hlen3 hcl pos' (by rw [h3a]; exact hnd)
              rw [h3a, h3b] at hih
              have hne3 : t3 ≠ [] := by
                intro h0
                have := scanString_closed_ne_nil _ hcl
                rw [h3a] at this
                exact this h0
              match hs, hl, hall, ht with
              | [a, b, c2, d], _, hall, ht =>
                have ha := hall a (by simp)
                have hb' := hall b (by simp)
                have hc2 := hall c2 (by simp)
                have hd' := hall d (by simp)
                simp only [List.cons_append, List.nil_append, show ('u' == 'u') = true by decide, if_true,
                  isHex_eq, ha, hb', hc2, hd', Bool.and_self, hih]
                simp only [List.cons_append, List.nil_append] at ht
                rw [ht]
                rw [dropLast_cons_of_ne_nil _ (by simp), dropLast_cons_of_ne_nil _ (by simp),
                  dropLast_cons_of_ne_nil _ (by simp), dropLast_cons_of_ne_nil _ (by simp),
                  dropLast_cons_of_ne_nil _ (by simp), dropLast_cons_of_ne_nil _ hne3]
            · simp at hcheck
      · -- an ordinary character
        rw [scanString_ordinary hq hb] at hc hd ⊢
        simp only at hc hd ⊢
        have hne : (scanString r1).1 ≠ [] := scanString_closed_ne_nil r1 hc
        simp only [checkStringGo] at hd
        have hbs : (c == '\\') = false := by simpa using hb
        simp only [hbs, Bool.false_eq_true, if_false] at hd
        split at hd
        · simp at hd
        · rename_i hctl
          have := ih r1 (by simp at hr; omega) hc _ hd
          unfold Rfc.stringBody
          have hq' : (c == '"') = false := by simpa using hq
          simp only [hq', hbs, Bool.false_eq_true, if_false, hctl, this]
          rw [dropLast_cons_of_ne_nil _ hne]

/-- scanning the characters of a closed string token alone gives the token back -/
theorem scanString_taken (n : Nat) : ∀ r : List Char, r.length ≤ n → (scanString r).2.2 = true →
    scanString (scanString r).1 = ((scanString r).1, [], true) := by
  induction n with
  | zero =>
    intro r hr hc
    cases r with
    | nil => simp [scanString] at hc
    | cons c r => simp at hr
  | succ n ih =>
    intro r hr hc
    cases r with
    | nil => simp [scanString] at hc
    | cons c r1 =>
      by_cases hq : c = '"'
      · subst hq; rw [scanString_quote]; simp only; rw [scanString_quote]
      by_cases hb : c = '\\'
      · subst hb
        cases r1 with
        | nil => simp [scanString] at hc
        | cons e r2 =>
          rw [scanString_escape] at hc ⊢
          simp only at hc ⊢
          rw [scanString_escape, ih r2 (by simp at hr; omega) hc]
      · rw [scanString_ordinary hq hb] at hc ⊢
        simp only at hc ⊢
        rw [scanString_ordinary hq hb, ih r1 (by simp at hr; omega) hc]

/-- a `String` token text without diagnostics is `"` body `"` with `body` per RFC 8259 §7 -/
theorem string_token_valid (start : Nat) (r : List Char) (hc : (scanString r).2.2 = true)
    (hd : checkString start ('"' :: (scanString r).1) = []) :
    lexemeOk .string ('"' :: (scanString r).1) = true := by
  have hd' : checkStringGo start .normal 1 (scanString r).1 = [] := by
    have : checkString start ('"' :: (scanString r).1) = checkStringGo start .normal 1 (scanString r).1 := by
      simp [checkString, checkStringGo]
      rfl
    rw [← this]; exact hd
  have hself := scanString_taken r.length r (Nat.le_refl _) hc
  have h := string_valid_aux start (scanString r).1.length (scanString r).1 (Nat.le_refl _)
    (by rw [hself]) 1 (by rw [hself]; exact hd')
  rw [hself] at h
  simp only [lexemeOk, h]

end ShapeVerif
