/-
From "`from_str` accepted the text" to "the non-whitespace tokens derive `value` in the token grammar
and the shape is `inferDoc` of the derived document".
-/
import ShapeVerif.Lemmas.ParseSound
import ShapeVerif.Lemmas.LexInv
import ShapeVerif.Props.C04
import ShapeVerif.Ref.JsonText
namespace ShapeVerif
open Shape


theorem keyOk_tokenize (src : List Char) : KeyOk src (keyOf src) (tokenize src).tokens := by
  intro t ht hk
  obtain ⟨txt, hsl, hlen⟩ := ((tokenize_ok src).toks t ht).str hk
  exact ⟨txt, hsl, hlen, by simp [keyOf, hsl]⟩

theorem utf8Len_ne_zero {src : List Char} (h : src ≠ []) : utf8Len src ≠ 0 := by
  have := utf8Len_pos_of_ne_nil h; omega

theorem fromStr_nil {s : Shape} : fromStr [] ≠ .ok s := by
  intro h
  have h2 := (accept_no_diagnostics [] s h).2
  have hroot : (parse []).root = .rule .file [] := by rfl
  rw [hroot] at h2
  simp only [parseCst, hasErrors, findSpan, List.filter_nil, List.length_nil, findNode] at h2
  unfold invalidJsonAt at h2
  have : ¬ (0 > 1) := by omega
  simp only [this, if_false] at h2
  split at h2 <;> cases h2

/-- `parse_cst` on the root the parser builds in clean mode: whitespace, one value node, whitespace -/
theorem parseCst_root (src : List Char) (pre sk : List Item) (n : Node) (d : Doc) (hpre : SkipItems pre)
    (hsk : SkipItems sk) (hvn : isValueRule n = true) (hev : Evals src n d) :
    parseCst src (.rule .file ((pre ++ (⟨n, false⟩ : Item) :: sk ++ []).map (fun i : Item => i.node))) =
      liftS (inferDoc d) := by
  have hroot : (pre ++ (⟨n, false⟩ : Item) :: sk ++ []).map (fun i : Item => i.node) =
      pre.map (·.node) ++ n :: sk.map (·.node) := by simp
  rw [hroot]
  have hnoerr : NoErrNodes (pre.map (·.node) ++ n :: sk.map (·.node)) :=
    noErr_append (skipItems_noErr hpre) (noErr_cons (valueRule_facts hvn).1 (skipItems_noErr hsk))
  have hws : ∀ {l : List Item}, SkipItems l → ∀ m ∈ l.map (·.node), isWsNode m = true := by
    intro l hl m hm
    obtain ⟨i, hi, rfl⟩ := List.mem_map.1 hm
    obtain ⟨_, k, a, b, e, hk'⟩ := hl i hi
    rw [e]; rcases hk' with rfl | rfl <;> rfl
  have hnws : isWsNode n = false := by
    cases n with
    | tok k a b => simp [isValueRule] at hvn
    | rule r cs => rfl
  have hfilter : ((pre.map (·.node) ++ n :: sk.map (·.node)).filter (fun m => !isWsNode m)) = [n] := by
    rw [List.filter_append, List.filter_cons]
    have a : (pre.map (·.node)).filter (fun m => !isWsNode m) = [] := by
      rw [List.filter_eq_nil_iff]; intro m hm; simp [hws hpre m hm]
    have b : (sk.map (·.node)).filter (fun m => !isWsNode m) = [] := by
      rw [List.filter_eq_nil_iff]; intro m hm; simp [hws hsk m hm]
    simp [a, b, hnws]
  have hfind : ∀ l : List Node, (∀ m ∈ l, isWsNode m = true) → ∀ pe,
      ∃ pe', findNode (fun m => !isWsNode m) pe (l ++ n :: sk.map (·.node)) = some (n, pe') := by
    intro l
    induction l with
    | nil => intro _ pe; exact ⟨pe, by simp [findNode, hnws]⟩
    | cons m l ih =>
      intro hpre' pe
      obtain ⟨pe', h'⟩ := ih (fun x hx => hpre' x (by simp [hx])) (nodeEnd pe m)
      exact ⟨pe', by simp [findNode, hpre' m (by simp), h']⟩
  obtain ⟨pe', hf⟩ := hfind _ (hws hpre) 0
  simp only [parseCst, hasErrors_ok hnoerr, hfilter, List.length_singleton, Nat.lt_irrefl, if_false, hf, hev pe']

/-- **token-level soundness of acceptance** -/
theorem accept_sound (src : List Char) (s : Shape) (h : fromStr src = .ok s) :
    (tokenize src).diags = [] ∧
    ∃ d, TValue (keyOf src) (sig (tokenize src).tokens) d ∧ inferDoc d = .ok s := by
  have hne : src ≠ [] := by rintro rfl; exact fromStr_nil h
  obtain ⟨hdiags, hcst⟩ := accept_no_diagnostics src s h
  -- unfold the parse
  have lx := tokenize_ok src
  have hk := keyOk_tokenize src
  simp only [parse] at hdiags hcst
  generalize hs0 : initState (tokenize src) (utf8Len src) = s0 at hdiags hcst
  generalize hrv : ruleValue (2 * (tokenize src).tokens.length + 4) s0 = rv at hdiags hcst
  have hs0d : s0.diags = (tokenize src).diags.reverse := by rw [← hs0]; rfl
  have hs0t : s0.toks = (takeSkips (tokenize src).tokens).2.1 := by rw [← hs0]; rfl
  have g1 : Grows s0.diags rv.1 := by rw [← hrv]; exact (grows_rules s0 _).1
  have g2 : Grows rv.1.diags (parseTail rv.1).1 := (grows_stable rv.1.diags).parseTail rv.1 (grows_refl _)
  have hfin : (parseTail rv.1).1.diags = [] := by simpa using hdiags
  -- all diagnostics are empty
  have hs0nil : s0.diags = [] := by
    obtain ⟨e, he⟩ := grows_trans g1 g2
    rw [hfin] at he
    have := congrArg List.length he
    simp at this
    exact List.eq_nil_of_length_eq_zero (by omega)
  have hlexd : (tokenize src).diags = [] := by
    rw [hs0d] at hs0nil; simpa using hs0nil
  have e1 : rv.1.diags = s0.diags := same_of_grows g1 g2 (by rw [hfin, hs0nil])
  -- the initial state is clean
  have hkinds := tokenize_kinds src
  have htok : TokensOk (tokenize src).tokens :=
    ⟨fun t ht => ⟨hkinds.2 hlexd t ht, hkinds.1 t ht⟩, fun t ht => (lx.toks t ht).lt⟩
  obtain ⟨sk0, sg0, hd0, hok0, hl0⟩ := takeSkips_spec (tokenize src).tokens htok
  have hclean : CleanSt s0 := by
    rw [← hs0]
    exact ⟨rfl, rfl, rfl, hd0, hok0, utf8Len_ne_zero hne⟩
  have hk0 : KeyOk src (keyOf src) s0.toks := by
    rw [hs0t]
    exact keyOk_of_subset hk (fun t ht => by
      have := takeSkips_yield (tokenize src).tokens
      rw [← this]; exact List.mem_append_right _ ht)
  have gv : GV src (keyOf src) s0 rv := by
    rw [← hrv]
    exact (rules_sound src (keyOf src) _).1 s0 hclean hk0 (by rw [hs0t]; omega) (by rw [hrv]; exact e1)
  obtain ⟨n, sk, d, ph, hitems, hsk, hvn, hev, hsig, htv⟩ := gv.node
  -- the parser stopped at the end of the input
  have hcur : rv.1.current = .eof := by
    by_cases hc : rv.1.current = .eof
    · exact hc
    · exfalso
      have : (parseTail rv.1).1 = rv.1.error := by
        unfold parseTail
        simp [hc]
      rw [this] at hfin
      have h2 := error_changes gv.clean
      rw [hfin, e1, hs0nil] at h2
      exact h2 rfl
  have htnil : rv.1.toks = [] := toks_nil_of_eof gv.clean hcur
  have htail : (parseTail rv.1).2 = [] := by unfold parseTail; simp [hcur]
  refine ⟨hlexd, d, ?_, ?_⟩
  · have : sig (tokenize src).tokens = ph := by
      rw [← sg0, ← hs0t, hsig, htnil]; simp [sig]
    rw [this]; exact htv
  · -- evaluation of the root
    rw [htail, hitems, parseCst_root src _ sk n d sk0 hsk hvn hev] at hcst
    cases hi : inferDoc d with
    | error e => rw [hi] at hcst; simp [liftS] at hcst
    | ok s' => rw [hi] at hcst; simp only [liftS] at hcst; cases hcst; rfl

end ShapeVerif
