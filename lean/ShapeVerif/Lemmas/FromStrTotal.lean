/-
`from_str` on every string: no panic, and every `InvalidJson` error carries the text at its range.
-/
import ShapeVerif.Lemmas.CstTotal
import ShapeVerif.Lemmas.ParsePreserve
namespace ShapeVerif
open Shape

/-- the invariant of parser states that the diagnostics need -/
structure PInv (src : List Char) (s : PState) : Prop where
  toks : ∀ t ∈ s.toks, TokOk src t
  diags : ∀ d ∈ s.diags, DiagOk src d
  maxOff : s.maxOffset = utf8Len src

theorem span_ok {src : List Char} {s : PState} (h : PInv src s) :
    Boundary src s.span.1 ∧ Boundary src s.span.2 ∧ s.span.1 ≤ s.span.2 := by
  unfold PState.span
  cases ht : s.toks with
  | nil => simp only [h.maxOff]; exact ⟨boundary_len src, boundary_len src, Nat.le_refl _⟩
  | cons t ts =>
    have := h.toks t (by simp [ht])
    exact ⟨this.bs, this.be, Nat.le_of_lt this.lt⟩

theorem takeSkips_subset : ∀ (ts : List Token) (t : Token), t ∈ (takeSkips ts).2.1 → t ∈ ts := by
  intro ts t h
  have := takeSkips_yield ts
  rw [← this]
  exact List.mem_append_right _ h

theorem pinv_stable (src : List Char) : Stable (PInv src) where
  error := by
    intro s h
    unfold PState.error
    split
    · exact h
    · refine ⟨h.toks, ?_, h.maxOff⟩
      intro d hd
      rcases List.mem_cons.1 hd with rfl | hd
      · exact span_ok h
      · exact h.diags d hd
  advance := by
    intro s e h
    unfold PState.advance
    cases ht : s.toks with
    | nil => exact h
    | cons t ts =>
      refine ⟨?_, h.diags, h.maxOff⟩
      intro t' ht'
      exact h.toks t' (by rw [ht]; exact List.mem_cons_of_mem _ (takeSkips_subset ts t' ht'))
  cooldown := by intro s h; exact ⟨h.toks, h.diags, h.maxOff⟩

theorem parse_diags_ok (src : List Char) : ∀ d ∈ (parse src).diags, DiagOk src d := by
  have lx := tokenize_ok src
  have h0 : PInv src (initState (tokenize src) (utf8Len src)) := by
    refine ⟨?_, ?_, rfl⟩
    · intro t ht
      exact lx.toks t (takeSkips_subset _ t ht)
    · intro d hd
      exact lx.diags d (by simpa [initState] using hd)
  have h1 := ((pinv_stable src).rules (2 * (tokenize src).tokens.length + 4)).1 _ h0
  have h2 := (pinv_stable src).parseTail _ h1
  intro d hd
  exact h2.diags d (by simpa [parse] using hd)

theorem parse_root_ok (src : List Char) : ListOk src (leaves (parse src).root) := by
  obtain ⟨rest, h⟩ := parse_leaves src
  have lx := tokenize_ok src
  have : ListOk src ((leaves (parse src).root) ++ rest) := by rw [h]; exact ⟨lx.toks, lx.chain⟩
  exact this.append_left

theorem firstBad_good {src : List Char} : ∀ (cs : List Node) (prevEnd : Nat) (r : Outcome Shape),
    Boundary src prevEnd → ListOk src (leavesList cs) → parseCst.firstBad src prevEnd cs = some r → Good src r
  | [], _, _, _, _, h => by simp [parseCst.firstBad] at h
  | n :: ns, prevEnd, r, hb, hl, h => by
    simp only [leavesList] at hl
    simp only [parseCst.firstBad] at h
    have key : ∀ (bad : Bool), (if bad = true then some (invalidJsonAt src (nodeSpan prevEnd n))
        else parseCst.firstBad src (nodeEnd prevEnd n) ns) = some r → Good src r := by
      intro bad hh
      cases bad with
      | true =>
        simp only [if_true] at hh
        cases hh; exact invalidJsonAt_good (nodeSpan_sliceable hb hl.append_left)
      | false =>
        simp only [Bool.false_eq_true, if_false] at hh
        exact firstBad_good ns _ r (nodeEnd_boundary hb hl.append_left) hl.append_right hh
    exact key _ h

theorem parseCst_good {src : List Char} {root : Node} (hl : ListOk src (leaves root)) :
    Good src (parseCst src root) := by
  have hb := boundary_zero src
  have hother : Good src (invalidJsonAt src (nodeSpan 0 root)) := invalidJsonAt_good (nodeSpan_sliceable hb hl)
  cases root with
  | tok k s e => simpa [parseCst] using hother
  | rule r cs =>
    have hcs : ListOk src (leavesList cs) := by simpa [leaves] using hl
    cases r with
    | file =>
      simp only [parseCst]
      refine good_bind_unit (hasErrors_good hb hcs) _ ?_
      split
      · cases hf : parseCst.firstBad src 0 cs with
        | none => exact good_err_other src _ (by intro v s t h; cases h)
        | some r => exact firstBad_good cs 0 r hb hcs hf
      · cases hf : findNode (fun n => !isWsNode n) 0 cs with
        | none => exact hother
        | some np =>
          obtain ⟨n, pe⟩ := np
          obtain ⟨hmem, _, hpe⟩ := findNode_spec _ cs 0 n pe hb hcs hf
          exact (cst_good src (sizeOf n)).1 n (Nat.le_refl _) pe (listOk_of_mem hcs hmem) hpe
    | array => simpa [parseCst] using hother
    | boolean => simpa [parseCst] using hother
    | error => simpa [parseCst] using hother
    | literal => simpa [parseCst] using hother
    | member => simpa [parseCst] using hother
    | object => simpa [parseCst] using hother
    | value => simpa [parseCst] using hother

theorem rejectDiagnostics_good {src : List Char} {diags : List Diag} (h : ∀ d ∈ diags, DiagOk src d) :
    Good src (rejectDiagnostics src diags) := by
  unfold rejectDiagnostics
  cases diags with
  | nil => exact good_ok src ()
  | cons d ds =>
    obtain ⟨b1, b2, hle⟩ := h d (by simp)
    obtain ⟨m, hm, _⟩ := sliceBytes_of_boundaries b1 b2 hle
    simp only [hm]
    exact ⟨(by intro h; cases h), (by intro v s e h; cases h; simpa using hm)⟩

/-- `from_str` neither panics nor misreports a range, for every string -/
theorem fromStr_good (src : List Char) : Good src (fromStr src) := by
  unfold fromStr
  have h1 := parseCst_good (parse_root_ok src)
  have h2 := rejectDiagnostics_good (parse_diags_ok src)
  simp only
  cases hp : parseCst src (parse src).root with
  | panic => exact absurd hp h1.1
  | err e => rw [hp] at h1; exact h1
  | ok s =>
    simp only
    cases hr : rejectDiagnostics src (parse src).diags with
    | panic => exact absurd hr h2.1
    | err e => rw [hr] at h2; exact good_err_cast h2
    | ok u => exact good_ok src s

end ShapeVerif
