/-
`keeps` and `newSample`: the two halves of C03's induction step.
-/
import ShapeVerif.Lemmas.SubsetMerge
namespace ShapeVerif
open Shape Std

theorem tupleFlatList_iff {l : List Shape} : tupleFlatList l = true ↔ ∀ s ∈ l, s.tupleFlat = true := by
  induction l with
  | nil => simp [tupleFlatList]
  | cons a l ih => simp [tupleFlatList, ih]

theorem tupleFlatMembers_iff {l : Members} : tupleFlatMembers l = true ↔ ∀ kv ∈ l, kv.2.tupleFlat = true := by
  induction l with
  | nil => simp [tupleFlatMembers]
  | cons a l ih => obtain ⟨k, v⟩ := a; simp [tupleFlatMembers, ih]

/-- the variant set of the array/tuple arms, for membership reasoning -/
theorem mem_arrayTupleVariants {t : Shape} {es : List Shape} {v0 : List Shape} {v : Shape} :
    v ∈ setExtend (arrayElemVariants t v0) (es.map asNonOptional) ↔
      v ∈ arrayElemVariants t v0 ∨ ∃ e ∈ es, v = e.asNonOptional := by
  rw [mem_setExtend, List.mem_map]
  constructor
  · rintro (h | ⟨e, he, rfl⟩)
    · exact Or.inl h
    · exact Or.inr ⟨e, he, rfl⟩
  · rintro (h | ⟨e, he, rfl⟩)
    · exact Or.inl h
    · exact Or.inr ⟨e, he, rfl⟩

/-- `keeps` for the array-with-tuple result, left operand an array -/
theorem keeps_array_tuple {s t : Shape} {es : List Shape} {o ot : Bool} (hs : s.plain = true)
    (h : isSubset s (.array t o) = true) :
    isSubset s (.array (.oneOf (setExtend (arrayElemVariants t
      (if es.any isOptional || t.isOptional then setInsert .null [] else [])) (es.map asNonOptional)) false)
      (o || ot)) = true := by
  have key : ∀ x, x.isOneOf = false → isSubset x t = true →
      isSubset x (.oneOf (setExtend (arrayElemVariants t
        (if es.any isOptional || t.isOptional then setInsert .null [] else [])) (es.map asNonOptional)) false) = true := by
    intro x hx hxt
    refine sub_arrayElemVariants hx hxt (fun v hv => mem_setExtend.2 (Or.inl hv)) ?_
    intro hopt
    apply mem_setExtend.2; left
    apply mem_arrayElemVariants_init
    exact nullInit_mem (by simp [hopt])
  rcases sub_array_inv h with ⟨ts, ps, rfl, hts, hp⟩ | ⟨ess, ps, rfl, hess, hp⟩ | ⟨rfl, hp⟩
  · simp only [Shape.plain] at hs
    exact sub_array_array (key ts (plain_not_oneOf hs) hts) (fun hh => by simp [hp hh])
  · simp only [Shape.plain] at hs
    refine sub_tuple_array ?_ (fun hh => by simp [hp hh])
    rw [List.all_eq_true] at hess ⊢
    intro x hx
    exact key x (plain_not_oneOf (plainList_iff.1 hs x hx)) (hess x hx)
  · exact null_sub_of_isOptional (by simp [isOptional, hp])

/-- `keeps` for the array-with-tuple result, left operand a tuple with no `OneOf` element -/
theorem keeps_tuple_array {s t : Shape} {es : List Shape} {o p : Bool} (hs : s.plain = true)
    (hflat : ∀ e ∈ es, e.isOneOf = false) (h : isSubset s (.tuple es o) = true) :
    isSubset s (.array (.oneOf (setExtend (arrayElemVariants t
      (if es.any isOptional || t.isOptional then setInsert .null [] else [])) (es.map asNonOptional)) false)
      (p || o)) = true := by
  rcases sub_tuple_inv h with ⟨ess, ps, rfl, hz, hl, hp⟩ | ⟨rfl, hp⟩
  · simp only [Shape.plain] at hs
    refine sub_tuple_array ?_ (fun hh => by simp [hp hh])
    rw [List.all_eq_true]
    intro x hx
    obtain ⟨e, he, hxe⟩ := zip_mem hz hl x hx
    refine sub_into_oneOf (hflat e he) hxe (x' := e.asNonOptional)
      (mem_arrayTupleVariants.2 (Or.inr ⟨e, he, rfl⟩)) (Or.inr rfl) ?_
    intro hopt
    apply mem_setExtend.2; left
    apply mem_arrayElemVariants_init
    apply nullInit_mem
    have : es.any isOptional = true := List.any_eq_true.2 ⟨e, he, hopt⟩
    simp [this]
  · exact null_sub_of_isOptional (by simp [isOptional, hp])

theorem keeps_tuple_tuple_else {s : Shape} {es os : List Shape} {o p : Bool} (hs : s.plain = true)
    (hflat : ∀ e ∈ es, e.isOneOf = false) (h : isSubset s (.tuple es o) = true) :
    isSubset s (.array (.oneOf (setExtend (setExtend
      (if es.any isOptional || os.any isOptional then setInsert .null [] else [])
      (es.map asNonOptional)) (os.map asNonOptional)) false) (o || p)) = true := by
  rcases sub_tuple_inv h with ⟨ess, ps, rfl, hz, hl, hp⟩ | ⟨rfl, hp⟩
  · simp only [Shape.plain] at hs
    refine sub_tuple_array ?_ (fun hh => by simp [hp hh])
    rw [List.all_eq_true]
    intro x hx
    obtain ⟨e, he, hxe⟩ := zip_mem hz hl x hx
    refine sub_into_oneOf (hflat e he) hxe (x' := e.asNonOptional) ?_ (Or.inr rfl) ?_
    · apply mem_setExtend.2; left
      exact mem_setExtend_map_asNonOptional e he
    · intro hopt
      apply mem_setExtend.2; left
      apply mem_setExtend.2; left
      apply nullInit_mem
      have : es.any isOptional = true := List.any_eq_true.2 ⟨e, he, hopt⟩
      simp [this]
  · exact null_sub_of_isOptional (by simp [isOptional, hp])

theorem tuple_elems_not_oneOf {es : List Shape} {o : Bool} (h : (Shape.tuple es o).tupleFlat = true) :
    ∀ e ∈ es, e.isOneOf = false := by
  simp only [Shape.tupleFlat, Bool.and_eq_true, List.all_eq_true] at h
  intro e he
  simpa using h.1 e he

/-- the object arm of `keeps`, given the induction hypothesis for the values of the left map -/
theorem keeps_object {cs c oc : Members} (hc : sortedKeys c = true) (ho : sortedKeys oc = true)
    (ih : ∀ kv ∈ cs, ∀ v ov, mapGet kv.1 c = some v → mapGet kv.1 oc = some ov →
      isSubset kv.2 v = true → isSubset kv.2 (merger v ov) = true)
    (hplain : ∀ kv ∈ cs, kv.2.isOneOf = false)
    (h : objSub cs c = true) : objSub cs (mergedContent c oc) = true := by
  have hM := sortedKeys_mergedContent c oc
  unfold objSub at h ⊢
  simp only [Bool.and_eq_true, List.all_eq_true] at h ⊢
  constructor
  · intro ⟨k, m⟩ hkm
    have hget := mapGet_eq_some_of_mem hM hkm
    rw [mapGet_mergedContent hc ho] at hget
    simp only [Bool.or_eq_true]
    cases hv : mapGet k c with
    | none =>
      cases hov : mapGet k oc with
      | none => simp [hv, hov] at hget
      | some ov =>
        simp [hv, hov] at hget; subst hget
        exact Or.inl (Or.inr (asOptional_isOptional ov))
    | some v =>
      have hcond := h.1 (k, v) (mem_of_mapGet hv)
      simp only [Bool.or_eq_true] at hcond
      cases hov : mapGet k oc with
      | none =>
        simp [hv, hov] at hget; subst hget
        exact Or.inl (Or.inr (asOptional_isOptional v))
      | some ov =>
        simp [hv, hov] at hget; subst hget
        rcases hcond with (hk | hopt) | hn
        · exact Or.inl (Or.inl hk)
        · have := nullableSyn_merger_left (a := v) (b := ov) (by simp [nullableSyn, hopt])
          simp only [nullableSyn, Bool.or_eq_true] at this
          rcases this with h' | h'
          · exact Or.inl (Or.inr h')
          · exact Or.inr h'
        · have := nullableSyn_merger_left (a := v) (b := ov) (by simp [nullableSyn, hn])
          simp only [nullableSyn, Bool.or_eq_true] at this
          rcases this with h' | h'
          · exact Or.inl (Or.inr h')
          · exact Or.inr h'
  · intro ⟨k, vs⟩ hks
    have hl := h.2 (k, vs) hks
    simp only [lookupSubset_eq_mapGet] at hl ⊢
    rw [mapGet_mergedContent hc ho]
    cases hv : mapGet k c with
    | none => simp [hv] at hl
    | some v =>
      simp only [hv] at hl
      cases hov : mapGet k oc with
      | none => exact sub_asOptional_right hl (hplain (k, vs) hks)
      | some ov => exact ih (k, vs) hks v ov hv hov hl

end ShapeVerif

namespace ShapeVerif
open Shape Std

theorem plain_tupleFlat_aux (n : Nat) : ∀ s : Shape, sizeOf s ≤ n → s.plain = true → s.tupleFlat = true := by
  induction n with
  | zero => intro s h; cases s <;> simp at h
  | succ n ih =>
    intro s hn hp
    cases s with
    | array t o => simp only [Shape.plain, Shape.tupleFlat] at hp ⊢; exact ih t (by simp at hn; omega) hp
    | object c o =>
      simp only [Shape.plain, Shape.tupleFlat] at hp ⊢
      rw [tupleFlatMembers_iff]
      intro kv hkv
      have := sizeOf_lt_of_mem_members hkv
      exact ih kv.2 (by simp at hn this; omega) (plainMembers_iff.1 hp kv hkv)
    | tuple es o =>
      simp only [Shape.plain, Shape.tupleFlat, Bool.and_eq_true, List.all_eq_true] at hp ⊢
      constructor
      · intro e he; simp [plain_not_oneOf (plainList_iff.1 hp e he)]
      · rw [tupleFlatList_iff]
        intro e he
        have := List.sizeOf_lt_of_mem he
        exact ih e (by simp at hn; omega) (plainList_iff.1 hp e he)
    | oneOf vs o => simp [Shape.plain] at hp
    | _ => rfl

theorem plain_tupleFlat {s : Shape} (h : s.plain = true) : s.tupleFlat = true :=
  plain_tupleFlat_aux (sizeOf s) s (Nat.le_refl _) h

/-- **keeps.** A plain shape that is a subset of the accumulator is a subset of the merged accumulator. -/
theorem keeps_aux (n : Nat) : ∀ a : Shape, sizeOf a ≤ n → ∀ s b : Shape, s.plain = true → a.wf = true →
    b.wf = true → a.tupleFlat = true → b.plain = true →
    isSubset s a = true → isSubset s (merger a b) = true := by
  induction n with
  | zero => intro a h; cases a <;> simp at h
  | succ n ih =>
    intro a hn s b hs ha hb hfa hpb h
    have hso : s.isOneOf = false := plain_not_oneOf hs
    have hbo : b.isOneOf = false := plain_not_oneOf hpb
    cases a with
    | null =>
      have := sub_null_inv h; subst this
      simp only [merger]
      exact null_sub_of_isOptional (asOptional_isOptional b)
    | bool o =>
      cases b with
      | null => rw [merge_null_right']; exact sub_asOptional_right h hso
      | bool p =>
        simp only [merger]
        rcases sub_bool_inv h with ⟨ps, rfl, hp⟩ | ⟨rfl, hp⟩
        · cases ps <;> cases o <;> simp_all [isSubset, isBoolean, isOptional]
        · subst hp; simp [isSubset, isOptional]
      | oneOf vs p => simp [Shape.isOneOf] at hbo
      | _ => simp only [merger]; exact sub_mixed_left rfl h
    | number o =>
      cases b with
      | null => rw [merge_null_right']; exact sub_asOptional_right h hso
      | number p =>
        simp only [merger]
        rcases sub_number_inv h with ⟨ps, rfl, hp⟩ | ⟨rfl, hp⟩
        · cases ps <;> cases o <;> simp_all [isSubset, isNumber, isOptional]
        · subst hp; simp [isSubset, isOptional]
      | oneOf vs p => simp [Shape.isOneOf] at hbo
      | _ => simp only [merger]; exact sub_mixed_left rfl h
    | string o =>
      cases b with
      | null => rw [merge_null_right']; exact sub_asOptional_right h hso
      | string p =>
        simp only [merger]
        rcases sub_string_inv h with ⟨ps, rfl, hp⟩ | ⟨rfl, hp⟩
        · cases ps <;> cases o <;> simp_all [isSubset, isString, isOptional]
        · subst hp; simp [isSubset, isOptional]
      | oneOf vs p => simp [Shape.isOneOf] at hbo
      | _ => simp only [merger]; exact sub_mixed_left rfl h
    | array t o =>
      cases b with
      | null => rw [merge_null_right']; exact sub_asOptional_right h hso
      | array t' p =>
        simp only [merger]
        simp only [Shape.wf] at ha hb
        simp only [Shape.tupleFlat] at hfa
        simp only [Shape.plain] at hpb
        have iht := fun x (hx : x.plain = true) => ih t (by simp at hn; omega) x t' hx ha hb hfa hpb
        rcases sub_array_inv h with ⟨ts, ps, rfl, hts, hp⟩ | ⟨ess, ps, rfl, hess, hp⟩ | ⟨rfl, hp⟩
        · simp only [Shape.plain] at hs
          exact sub_array_array (iht ts hs hts) (fun hh => by simp [hp hh])
        · simp only [Shape.plain] at hs
          refine sub_tuple_array ?_ (fun hh => by simp [hp hh])
          rw [List.all_eq_true] at hess ⊢
          intro x hx; exact iht x (plainList_iff.1 hs x hx) (hess x hx)
        · exact null_sub_of_isOptional (by simp [isOptional, hp])
      | tuple es ot => simp only [merger]; exact keeps_array_tuple hs h
      | oneOf vs p => simp [Shape.isOneOf] at hbo
      | _ => simp only [merger]; exact sub_mixed_left rfl h
    | object c o =>
      cases b with
      | null => rw [merge_null_right']; exact sub_asOptional_right h hso
      | object oc p =>
        rw [merger_object_object]
        simp only [Shape.wf, Bool.and_eq_true] at ha hb
        simp only [Shape.tupleFlat] at hfa
        simp only [Shape.plain] at hpb
        rcases sub_object_inv h with ⟨cs, ps, rfl, hcs, hp⟩ | ⟨rfl, hp⟩
        · simp only [Shape.plain] at hs
          refine sub_object_object ?_ (fun hh => by simp [hp hh])
          refine keeps_object ha.1 hb.1 ?_ (fun kv hkv => plain_not_oneOf (plainMembers_iff.1 hs kv hkv)) hcs
          intro kv hkv v ov hv hov hsub
          have hsz : sizeOf v ≤ n := by
            have := sizeOf_lt_of_mapGet hv; simp at hn; omega
          exact ih v hsz kv.2 ov (plainMembers_iff.1 hs kv hkv) (wf_of_mapGet ha.2 hv) (wf_of_mapGet hb.2 hov)
            (tupleFlatMembers_iff.1 hfa _ (mem_of_mapGet hv)) (plainMembers_iff.1 hpb _ (mem_of_mapGet hov)) hsub
        · exact null_sub_of_isOptional (by simp [isOptional, hp])
      | oneOf vs p => simp [Shape.isOneOf] at hbo
      | _ => simp only [merger]; exact sub_mixed_left rfl h
    | oneOf vs o =>
      cases b with
      | null =>
        simp only [merger]
        exact sub_oneOf_mono h (fun _ hv => hv) (fun _ => Or.inl rfl) hso
      | oneOf ws p => simp [Shape.isOneOf] at hbo
      | _ => simp only [merger]; exact sub_addToOneOf_old hso h
    | tuple es o =>
      have hflat := tuple_elems_not_oneOf hfa
      cases b with
      | null => rw [merge_null_right']; exact sub_asOptional_right h hso
      | array t' p => simp only [merger]; exact keeps_tuple_array hs hflat h
      | tuple os p =>
        simp only [merger]
        simp only [Shape.wf] at ha hb
        simp only [Shape.plain] at hpb
        split
        · rename_i folded hlen hpick
          have hlen' : es.length = os.length := by simpa using hlen
          rcases sub_tuple_inv h with ⟨ess, ps, rfl, hz, hl, hp⟩ | ⟨rfl, hp⟩
          · simp only [Shape.plain] at hs
            obtain ⟨z1, z2⟩ := pickAll_keeps ess es os folded
              (fun x hx => plain_not_oneOf (plainList_iff.1 hs x hx)) hpb hb hpick hz hl hlen'
            exact sub_tuple_tuple z1 z2 (fun hh => by simp [hp hh])
          · exact null_sub_of_isOptional (by simp [isOptional, hp])
        · exact keeps_tuple_tuple_else hs hflat h
      | oneOf vs p => simp [Shape.isOneOf] at hbo
      | _ => simp only [merger]; exact sub_mixed_left rfl h
where
  merge_null_right' {s : Shape} : merger s .null = s.asOptional := by
    cases s <;> simp [merger, asOptional, withOptional]

theorem keeps {s a b : Shape} (hs : s.plain = true) (ha : a.wf = true) (hb : b.wf = true)
    (hfa : a.tupleFlat = true) (hpb : b.plain = true) (h : isSubset s a = true) :
    isSubset s (merger a b) = true :=
  keeps_aux (sizeOf a) a (Nat.le_refl _) s b hs ha hb hfa hpb h

end ShapeVerif

namespace ShapeVerif
open Shape Std

theorem sub_self_flag {b : Shape} (hb : b.wf = true) (q : Bool) (hq : b.isOptional = true → q = true) :
    isSubset b (withOptional q b) = true := subset_withOptional b q hb hq

/-- **newSample.** The merged-in plain shape is a subset of the result. -/
theorem newSample_aux (n : Nat) : ∀ a : Shape, sizeOf a ≤ n → ∀ b : Shape, b.plain = true → a.wf = true →
    b.wf = true → isSubset b (merger a b) = true := by
  induction n with
  | zero => intro a h; cases a <;> simp at h
  | succ n ih =>
    intro a hn b hpb ha hb
    have hbo : b.isOneOf = false := plain_not_oneOf hpb
    have hrefl := subset_refl b hb
    cases a with
    | null => simp only [merger]; exact subset_as_optional b hb
    | bool o =>
      cases b with
      | null => simp [merger, isSubset, isOptional]
      | bool p => simp only [merger]; cases o <;> cases p <;> simp [isSubset, isBoolean, isOptional]
      | oneOf vs p => simp [Shape.isOneOf] at hbo
      | _ => simp only [merger]; exact sub_mixed_right hbo hrefl
    | number o =>
      cases b with
      | null => simp [merger, isSubset, isOptional]
      | number p => simp only [merger]; cases o <;> cases p <;> simp [isSubset, isNumber, isOptional]
      | oneOf vs p => simp [Shape.isOneOf] at hbo
      | _ => simp only [merger]; exact sub_mixed_right hbo hrefl
    | string o =>
      cases b with
      | null => simp [merger, isSubset, isOptional]
      | string p => simp only [merger]; cases o <;> cases p <;> simp [isSubset, isString, isOptional]
      | oneOf vs p => simp [Shape.isOneOf] at hbo
      | _ => simp only [merger]; exact sub_mixed_right hbo hrefl
    | array t o =>
      cases b with
      | null => simp [merger, isSubset, isOptional]
      | array t' p =>
        simp only [merger]
        simp only [Shape.wf] at ha hb
        simp only [Shape.plain] at hpb
        exact sub_array_array (ih t (by simp at hn; omega) t' hpb ha hb) (fun hh => by simp [hh])
      | tuple es' ot =>
        simp only [merger]
        simp only [Shape.wf] at hb
        simp only [Shape.plain] at hpb
        refine sub_tuple_array ?_ (fun hh => by simp [hh])
        rw [List.all_eq_true]
        intro e he
        refine sub_into_oneOf (plain_not_oneOf (plainList_iff.1 hpb e he)) (subset_refl e (wfList_iff.1 hb e he))
          (x' := e.asNonOptional) (mem_arrayTupleVariants.2 (Or.inr ⟨e, he, rfl⟩)) (Or.inr rfl) ?_
        intro hopt
        apply mem_setExtend.2; left
        apply mem_arrayElemVariants_init
        apply nullInit_mem
        have : es'.any isOptional = true := List.any_eq_true.2 ⟨e, he, hopt⟩
        simp [this]
      | oneOf vs p => simp [Shape.isOneOf] at hbo
      | _ => simp only [merger]; exact sub_mixed_right hbo hrefl
    | object c o =>
      cases b with
      | null => simp [merger, isSubset, isOptional]
      | object oc p =>
        rw [merger_object_object]
        simp only [Shape.wf, Bool.and_eq_true] at ha hb
        simp only [Shape.plain] at hpb
        refine sub_object_object ?_ (fun hh => by simp [hh])
        have hM := sortedKeys_mergedContent c oc
        unfold objSub
        simp only [Bool.and_eq_true, List.all_eq_true]
        constructor
        · intro ⟨k, m⟩ hkm
          have hget := mapGet_eq_some_of_mem hM hkm
          rw [mapGet_mergedContent ha.1 hb.1] at hget
          simp only [Bool.or_eq_true]
          cases hov : mapGet k oc with
          | some ov => exact Or.inl (Or.inl (mapContainsKey_iff.2 ⟨ov, mem_of_mapGet hov⟩))
          | none =>
            cases hv : mapGet k c with
            | none => simp [hv, hov] at hget
            | some v =>
              simp [hv, hov] at hget; subst hget
              exact Or.inl (Or.inr (asOptional_isOptional v))
        · intro ⟨k, ov⟩ hko
          have hov := mapGet_eq_some_of_mem hb.1 hko
          simp only [lookupSubset_eq_mapGet]
          rw [mapGet_mergedContent ha.1 hb.1, hov]
          have hovw := wfMembers_mem hb.2 _ hko
          cases hv : mapGet k c with
          | none => exact subset_as_optional ov hovw
          | some v =>
            have hsz : sizeOf v ≤ n := by
              have := sizeOf_lt_of_mapGet hv; simp at hn; omega
            exact ih v hsz ov (plainMembers_iff.1 hpb _ hko) (wf_of_mapGet ha.2 hv) hovw
      | oneOf vs p => simp [Shape.isOneOf] at hbo
      | _ => simp only [merger]; exact sub_mixed_right hbo hrefl
    | oneOf vs o =>
      cases b with
      | null => simp [merger, isSubset, isOptional]
      | oneOf ws p => simp [Shape.isOneOf] at hbo
      | _ => simp only [merger]; exact sub_addToOneOf_new hbo hrefl
    | tuple es o =>
      cases b with
      | null => simp [merger, isSubset, isOptional]
      | array t' p =>
        simp only [merger]
        simp only [Shape.wf] at hb
        simp only [Shape.plain] at hpb
        refine sub_array_array ?_ (fun hh => by simp [hh])
        refine sub_arrayElemVariants (plain_not_oneOf hpb) (subset_refl t' hb)
          (fun v hv => mem_setExtend.2 (Or.inl hv)) ?_
        intro hopt
        apply mem_setExtend.2; left
        apply mem_arrayElemVariants_init
        exact nullInit_mem (by simp [hopt])
      | tuple os p =>
        simp only [merger]
        simp only [Shape.wf] at ha hb
        simp only [Shape.plain] at hpb
        split
        · rename_i folded hlen hpick
          have hlen' : es.length = os.length := by simpa using hlen
          obtain ⟨z1, z2⟩ := pickAll_new es os folded hb hpick hlen'
          exact sub_tuple_tuple z1 z2 (fun hh => by simp [hh])
        · refine sub_tuple_array ?_ (fun hh => by simp [hh])
          rw [List.all_eq_true]
          intro e he
          refine sub_into_oneOf (plain_not_oneOf (plainList_iff.1 hpb e he))
            (subset_refl e (wfList_iff.1 hb e he)) (x' := e.asNonOptional)
            (mem_setExtend_map_asNonOptional e he) (Or.inr rfl) ?_
          intro hopt
          apply mem_setExtend.2; left
          apply mem_setExtend.2; left
          apply nullInit_mem
          have : os.any isOptional = true := List.any_eq_true.2 ⟨e, he, hopt⟩
          simp [this]
      | oneOf vs p => simp [Shape.isOneOf] at hbo
      | _ => simp only [merger]; exact sub_mixed_right hbo hrefl

theorem newSample {a b : Shape} (hpb : b.plain = true) (ha : a.wf = true) (hb : b.wf = true) :
    isSubset b (merger a b) = true := newSample_aux (sizeOf a) a (Nat.le_refl _) b hpb ha hb

end ShapeVerif
