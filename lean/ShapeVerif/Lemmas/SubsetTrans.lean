/-
Transitivity of the model of `is_subset` into a `plain` (OneOf-free) right-hand side.
-/
import ShapeVerif.Lemmas.SubsetOneOf
import ShapeVerif.Lemmas.Admits
namespace ShapeVerif
open Shape Std

theorem plainList_iff {l : List Shape} : plainList l = true ↔ ∀ s ∈ l, s.plain = true := by
  induction l with
  | nil => simp [plainList]
  | cons a l ih => simp [plainList, ih]

theorem plainMembers_iff {l : Members} : plainMembers l = true ↔ ∀ kv ∈ l, kv.2.plain = true := by
  induction l with
  | nil => simp [plainMembers]
  | cons a l ih => obtain ⟨k, v⟩ := a; simp [plainMembers, ih]

theorem plain_not_oneOf {s : Shape} (h : s.plain = true) : s.isOneOf = false := by
  cases s <;> simp_all [Shape.plain, Shape.isOneOf]

theorem lookupSubset_eq_mapGet (k : String) (v : Shape) (c : Members) :
    lookupSubset k v c = match mapGet k c with
      | some x => isSubset v x
      | none => false := by
  induction c with
  | nil => rfl
  | cons a c ih =>
    obtain ⟨k', x⟩ := a
    simp only [lookupSubset, mapGet_cons]
    split <;> simp [ih]

/-- a syntactically nullable shape below a plain shape makes that shape nullable (optional) -/
theorem nullableSyn_of_sub_plain {x y : Shape} (hy : y.plain = true) (hx : nullableSyn x = true)
    (h : isSubset x y = true) : y.isOptional = true := by
  unfold nullableSyn at hx
  cases y with
  | oneOf vs o => simp [Shape.plain] at hy
  | null => rfl
  | bool p =>
    rcases sub_bool_inv h with ⟨ps, rfl, hp⟩ | ⟨rfl, hp⟩
    · simp [isOptional, isOneOfNull] at hx; exact hp hx
    · exact hp
  | number p =>
    rcases sub_number_inv h with ⟨ps, rfl, hp⟩ | ⟨rfl, hp⟩
    · simp [isOptional, isOneOfNull] at hx; exact hp hx
    · exact hp
  | string p =>
    rcases sub_string_inv h with ⟨ps, rfl, hp⟩ | ⟨rfl, hp⟩
    · simp [isOptional, isOneOfNull] at hx; exact hp hx
    · exact hp
  | array t p =>
    rcases sub_array_inv h with ⟨ts, ps, rfl, _, hp⟩ | ⟨es, ps, rfl, _, hp⟩ | ⟨rfl, hp⟩
    · simp [isOptional, isOneOfNull] at hx; exact hp hx
    · simp [isOptional, isOneOfNull] at hx; exact hp hx
    · exact hp
  | tuple os p =>
    rcases sub_tuple_inv h with ⟨es, ps, rfl, _, _, hp⟩ | ⟨rfl, hp⟩
    · simp [isOptional, isOneOfNull] at hx; exact hp hx
    · exact hp
  | object oc p =>
    rcases sub_object_inv h with ⟨c, ps, rfl, _, hp⟩ | ⟨rfl, hp⟩
    · simp [isOptional, isOneOfNull] at hx; exact hp hx
    · exact hp

theorem zipAllSubset_trans {P : Shape → Prop} : ∀ (ss es os : List Shape),
    (∀ o ∈ os, ∀ s e, isSubset s e = true → isSubset e o = true → isSubset s o = true) →
    zipAllSubset ss es = true → ss.length = es.length → zipAllSubset es os = true → es.length = os.length →
    zipAllSubset ss os = true
  | [], [], [], _, _, _, _, _ => by simp [zipAllSubset]
  | s :: ss, e :: es, o :: os, ih, h1, l1, h2, l2 => by
    simp [zipAllSubset] at h1 h2 ⊢
    refine ⟨ih o (by simp) s e h1.1 h2.1, ?_⟩
    exact zipAllSubset_trans (P := P) ss es os (fun o' ho' => ih o' (by simp [ho'])) h1.2 (by simpa using l1)
      h2.2 (by simpa using l2)
  | [], _ :: _, _, _, _, l1, _, _ => by simp at l1
  | _ :: _, [], _, _, _, l1, _, _ => by simp at l1
  | [], [], _ :: _, _, _, _, _, l2 => by simp at l2
  | _ :: _, _ :: _, [], _, _, _, _, l2 => by simp at l2

theorem sub_trans_plain_aux (n : Nat) : ∀ (o : Shape), sizeOf o ≤ n → o.plain = true → o.wf = true →
    ∀ s e, isSubset s e = true → isSubset e o = true → isSubset s o = true := by
  induction n with
  | zero => intro o h; cases o <;> simp at h
  | succ n ih =>
    intro o hn hp hw s e h1 h2
    cases o with
    | oneOf vs oo => simp [Shape.plain] at hp
    | null =>
      have := sub_null_inv h2; subst this
      have := sub_null_inv h1; subst this
      exact h2
    | bool p =>
      rcases sub_bool_inv h2 with ⟨pe, rfl, hpe⟩ | ⟨rfl, hpe⟩
      · rcases sub_bool_inv h1 with ⟨ps, rfl, hps⟩ | ⟨rfl, hps⟩
        · cases ps <;> cases p <;> simp_all [isSubset, isBoolean, isOptional]
        · have := hpe hps; subst this; simp [isSubset, isOptional]
      · have := sub_null_inv h1; subst this; exact h2
    | number p =>
      rcases sub_number_inv h2 with ⟨pe, rfl, hpe⟩ | ⟨rfl, hpe⟩
      · rcases sub_number_inv h1 with ⟨ps, rfl, hps⟩ | ⟨rfl, hps⟩
        · cases ps <;> cases p <;> simp_all [isSubset, isNumber, isOptional]
        · have := hpe hps; subst this; simp [isSubset, isOptional]
      · have := sub_null_inv h1; subst this; exact h2
    | string p =>
      rcases sub_string_inv h2 with ⟨pe, rfl, hpe⟩ | ⟨rfl, hpe⟩
      · rcases sub_string_inv h1 with ⟨ps, rfl, hps⟩ | ⟨rfl, hps⟩
        · cases ps <;> cases p <;> simp_all [isSubset, isString, isOptional]
        · have := hpe hps; subst this; simp [isSubset, isOptional]
      · have := sub_null_inv h1; subst this; exact h2
    | array t p =>
      simp only [Shape.plain] at hp
      simp only [Shape.wf] at hw
      have iht := ih t (by simp at hn; omega) hp hw
      rcases sub_array_inv h2 with ⟨te, pe, rfl, hte, hpe⟩ | ⟨ees, pe, rfl, hees, hpe⟩ | ⟨rfl, hpe⟩
      · rcases sub_array_inv h1 with ⟨ts, ps, rfl, hts, hps⟩ | ⟨ess, ps, rfl, hess, hps⟩ | ⟨rfl, hps⟩
        · exact sub_array_array (iht ts te hts hte) (fun h => hpe (hps h))
        · refine sub_tuple_array ?_ (fun h => hpe (hps h))
          rw [List.all_eq_true] at hess ⊢
          intro x hx; exact iht x te (hess x hx) hte
        · have := hpe hps; subst this; simp [isSubset, isOptional]
      · rcases sub_tuple_inv h1 with ⟨ess, ps, rfl, hz, hl, hps⟩ | ⟨rfl, hps⟩
        · refine sub_tuple_array ?_ (fun h => hpe (hps h))
          rw [List.all_eq_true] at hees ⊢
          -- every element of `ess` is below the element of `ees` at the same position
          have : ∀ (ess ees : List Shape), zipAllSubset ess ees = true → ess.length = ees.length →
              (∀ x ∈ ees, isSubset x t = true) → ∀ x ∈ ess, isSubset x t = true := by
            intro ess
            induction ess with
            | nil => intro _ _ _ _ x hx; cases hx
            | cons a ess ihl =>
              intro ees hz hl hall x hx
              cases ees with
              | nil => simp at hl
              | cons b ees =>
                simp [zipAllSubset] at hz
                rcases List.mem_cons.1 hx with rfl | hx
                · exact iht _ b hz.1 (hall b (by simp))
                · exact ihl ees hz.2 (by simpa using hl) (fun y hy => hall y (by simp [hy])) x hx
          exact this ess ees hz hl hees
        · have := hpe hps; subst this; simp [isSubset, isOptional]
      · have := sub_null_inv h1; subst this; exact h2
    | tuple os p =>
      simp only [Shape.plain] at hp
      simp only [Shape.wf] at hw
      rcases sub_tuple_inv h2 with ⟨ees, pe, rfl, hze, hle, hpe⟩ | ⟨rfl, hpe⟩
      · rcases sub_tuple_inv h1 with ⟨ess, ps, rfl, hzs, hls, hps⟩ | ⟨rfl, hps⟩
        · refine sub_tuple_tuple ?_ (hls.trans hle) (fun h => hpe (hps h))
          apply zipAllSubset_trans (P := fun _ => True) ess ees os _ hzs hls hze hle
          intro o ho s e hs he
          have : sizeOf o < sizeOf os := List.sizeOf_lt_of_mem ho
          exact ih o (by simp at hn; omega) (plainList_iff.1 hp o ho) (wfList_iff.1 hw o ho) s e hs he
        · have := hpe hps; subst this; simp [isSubset, isOptional]
      · have := sub_null_inv h1; subst this; exact h2
    | object c p =>
      simp only [Shape.plain] at hp
      simp only [Shape.wf, Bool.and_eq_true] at hw
      rcases sub_object_inv h2 with ⟨ce, pe, rfl, hce, hpe⟩ | ⟨rfl, hpe⟩
      · rcases sub_object_inv h1 with ⟨cs, ps, rfl, hcs, hps⟩ | ⟨rfl, hps⟩
        · refine sub_object_object ?_ (fun h => hpe (hps h))
          unfold objSub at hce hcs ⊢
          simp only [Bool.and_eq_true, List.all_eq_true] at hce hcs ⊢
          constructor
          · intro ⟨k, vc⟩ hkc
            have := hce.1 (k, vc) hkc
            simp only [Bool.or_eq_true] at this ⊢
            rcases this with (hk | ho) | ho
            · -- k is a key of ce
              obtain ⟨ve, hve⟩ := mapContainsKey_iff.1 hk
              have := hcs.1 (k, ve) hve
              simp only [Bool.or_eq_true] at this
              have hlook := hce.2 (k, ve) hve
              simp only [lookupSubset_eq_mapGet, mapGet_eq_some_of_mem hw.1 hkc] at hlook
              rcases this with (hk' | ho') | ho'
              · exact Or.inl (Or.inl hk')
              · exact Or.inl (Or.inr (nullableSyn_of_sub_plain (plainMembers_iff.1 hp _ hkc)
                  (by simp [nullableSyn, ho']) hlook))
              · exact Or.inl (Or.inr (nullableSyn_of_sub_plain (plainMembers_iff.1 hp _ hkc)
                  (by simp [nullableSyn, ho']) hlook))
            · exact Or.inl (Or.inr ho)
            · exact Or.inr ho
          · intro ⟨k, vs⟩ hks
            have h1' := hcs.2 (k, vs) hks
            simp only [lookupSubset_eq_mapGet] at h1' ⊢
            cases hge : mapGet k ce with
            | none => simp [hge] at h1'
            | some ve =>
              simp only [hge] at h1'
              have h2' := hce.2 (k, ve) (mem_of_mapGet hge)
              simp only [lookupSubset_eq_mapGet] at h2'
              cases hgc : mapGet k c with
              | none => simp [hgc] at h2'
              | some vc =>
                simp only [hgc] at h2' ⊢
                have hmem := mem_of_mapGet hgc
                have : sizeOf vc ≤ n := by
                  have := sizeOf_lt_of_mem_members hmem; simp at hn this; omega
                exact ih vc this (plainMembers_iff.1 hp _ hmem) (wfMembers_mem hw.2 _ hmem) vs ve h1' h2'
        · have := hpe hps; subst this; simp [isSubset, isOptional]
      · have := sub_null_inv h1; subst this; exact h2

/-- `s ⊑ e` and `e ⊑ o` give `s ⊑ o` when `o` is a well-formed single-document-like shape -/
theorem sub_trans_plain {s e o : Shape} (hp : o.plain = true) (hw : o.wf = true)
    (h1 : isSubset s e = true) (h2 : isSubset e o = true) : isSubset s o = true :=
  sub_trans_plain_aux (sizeOf o) o (Nat.le_refl _) hp hw s e h1 h2

end ShapeVerif
