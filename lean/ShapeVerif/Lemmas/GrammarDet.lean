/-
The token grammar is unambiguous: a token list has at most one reading (needed to say that the
document the parser builds is *the* document of the text).
-/
import ShapeVerif.Lemmas.ParseComplete
namespace ShapeVerif

variable {key : Token → String}

theorem first_of_elems {ts : List Token} {xs : List Doc} (h : TElems key ts xs) :
    ∃ t rest, ts = t :: rest ∧ isValueStart t.kind = true := by
  cases h with
  | one hv => exact first_of_value hv
  | cons _ hv _ =>
    obtain ⟨t, rest, e, hs⟩ := first_of_value hv
    exact ⟨t, _, by rw [e]; rfl, hs⟩

def litDoc : Tok → Doc
  | .null_ => .null
  | .number => .num ""
  | .string => .str ""
  | _ => .bool false

theorem single_value {ph : List Token} {d : Doc} (h : TValue key ph d) :
    ∀ t, ph = [t] → d = litDoc t.kind ∧
      (t.kind = .null_ ∨ t.kind = .true_ ∨ t.kind = .false_ ∨ t.kind = .number ∨ t.kind = .string) := by
  intro t e
  cases h with
  | null hk => cases e; simp [litDoc, hk]
  | tru hk => cases e; simp [litDoc, hk]
  | fls hk => cases e; simp [litDoc, hk]
  | num hk => cases e; simp [litDoc, hk]
  | str hk => cases e; simp [litDoc, hk]
  | arrE _ _ => simp at e
  | arr _ _ _ => simp at e
  | objE _ _ => simp at e
  | obj _ _ _ => simp at e

/-- what may follow a list of elements / members: not a comma -/
def NotComma (r : List Token) : Prop := ∀ t tl, r = t :: tl → t.kind ≠ .comma

theorem det_aux (n : Nat) :
    (∀ (ph ph' r r' : List Token) (d d' : Doc), (ph ++ r).length ≤ n → ph ++ r = ph' ++ r' →
      TValue key ph d → TValue key ph' d' → ph = ph' ∧ d = d') ∧
    (∀ (ts ts' r r' : List Token) (xs xs' : List Doc), (ts ++ r).length ≤ n → ts ++ r = ts' ++ r' →
      NotComma r → NotComma r' → TElems key ts xs → TElems key ts' xs' → ts = ts' ∧ xs = xs') ∧
    (∀ (ts ts' r r' : List Token) (ms ms' : List (String × Doc)), (ts ++ r).length ≤ n → ts ++ r = ts' ++ r' →
      NotComma r → NotComma r' → TMembers key ts ms → TMembers key ts' ms' → ts = ts' ∧ ms = ms') := by
  induction n with
  | zero =>
    refine ⟨?_, ?_, ?_⟩
    · intro ph ph' r r' d d' hl _ h1 _
      obtain ⟨t, rest, e, _⟩ := first_of_value h1
      rw [e] at hl; simp at hl
    · intro ts ts' r r' xs xs' hl _ _ _ h1 _
      obtain ⟨t, rest, e, _⟩ := first_of_elems h1
      rw [e] at hl; simp at hl
    · intro ts ts' r r' ms ms' hl _ _ _ h1 _
      cases h1 <;> simp at hl
  | succ n ih =>
    obtain ⟨ihV, ihE, ihM⟩ := ih
    have hV : ∀ (ph ph' r r' : List Token) (d d' : Doc), (ph ++ r).length ≤ n + 1 → ph ++ r = ph' ++ r' →
        TValue key ph d → TValue key ph' d' → ph = ph' ∧ d = d' := by
      intro ph ph' r r' d d' hl he h1 h2
      -- a one-token value against anything: same first token decides
      have lit : ∀ {t : Token} {ph' : List Token} {d d' : Doc}, [t] ++ r = ph' ++ r' →
          (t.kind = .null_ ∨ t.kind = .true_ ∨ t.kind = .false_ ∨ t.kind = .number ∨ t.kind = .string) →
          TValue key [t] d → TValue key ph' d' → [t] = ph' ∧ d = d' := by
        intro t ph' d d' he hk h1 h2
        have hd := (single_value h1 t rfl).1
        obtain ⟨t', rest', e', _⟩ := first_of_value h2
        subst e'
        simp only [List.cons_append, List.nil_append, List.cons.injEq] at he
        obtain ⟨rfl, _⟩ := he
        cases h2 with
        | null hk' => exact ⟨rfl, by rw [hd, hk']; rfl⟩
        | tru hk' => exact ⟨rfl, by rw [hd, hk']; rfl⟩
        | fls hk' => exact ⟨rfl, by rw [hd, hk']; rfl⟩
        | num hk' => exact ⟨rfl, by rw [hd, hk']; rfl⟩
        | str hk' => exact ⟨rfl, by rw [hd, hk']; rfl⟩
        | arrE hl' _ => rcases hk with h | h | h | h | h <;> rw [hl'] at h <;> cases h
        | arr hl' _ _ => rcases hk with h | h | h | h | h <;> rw [hl'] at h <;> cases h
        | objE hl' _ => rcases hk with h | h | h | h | h <;> rw [hl'] at h <;> cases h
        | obj hl' _ _ => rcases hk with h | h | h | h | h <;> rw [hl'] at h <;> cases h
      cases h1 with
      | null hk => exact lit he (.inl hk) (.null hk) h2
      | tru hk => exact lit he (.inr (.inl hk)) (.tru hk) h2
      | fls hk => exact lit he (.inr (.inr (.inl hk))) (.fls hk) h2
      | num hk => exact lit he (.inr (.inr (.inr (.inl hk)))) (.num hk) h2
      | str hk => exact lit he (.inr (.inr (.inr (.inr hk)))) (.str hk) h2
      | @arrE l r0 hl0 hr0 =>
        cases h2 with
        | @arrE l' r0' _ _ =>
          simp only [List.cons_append, List.nil_append, List.cons.injEq] at he
          obtain ⟨rfl, rfl, _⟩ := he
          exact ⟨rfl, rfl⟩
        | @arr l' r0' ts' xs' _ _ hel =>
          exfalso
          obtain ⟨t, rest, e, hs⟩ := first_of_elems hel
          subst e
          simp only [List.cons_append, List.nil_append, List.cons.injEq] at he
          obtain ⟨_, h2', _⟩ := he
          rw [← h2', hr0] at hs; cases hs
        | null hk' | tru hk' | fls hk' | num hk' | str hk' =>
          simp only [List.cons_append, List.nil_append, List.cons.injEq] at he
          obtain ⟨rfl, _⟩ := he; rw [hl0] at hk'; cases hk'
        | objE hl' _ | obj hl' _ _ =>
          simp only [List.cons_append, List.nil_append, List.cons.injEq] at he
          obtain ⟨rfl, _⟩ := he; rw [hl0] at hl'; cases hl'
      | @arr l r0 ts xs hl0 hr0 hel =>
        cases h2 with
        | @arrE l' r0' _ hr' =>
          exfalso
          obtain ⟨t, rest, e, hs⟩ := first_of_elems hel
          subst e
          simp only [List.cons_append, List.nil_append, List.cons.injEq] at he
          obtain ⟨_, h2', _⟩ := he
          rw [h2', hr'] at hs; cases hs
        | @arr l' r0' ts' xs' _ hr' hel' =>
          simp only [List.cons_append, List.append_assoc, List.cons.injEq] at he
          obtain ⟨rfl, he⟩ := he
          have hlen : (ts ++ ([r0] ++ r)).length ≤ n := by simp at hl ⊢; omega
          obtain ⟨rfl, rfl⟩ := ihE ts ts' ([r0] ++ r) ([r0'] ++ r') xs xs' hlen he
            (by intro t tl e; simp only [List.cons_append, List.nil_append, List.cons.injEq] at e
                rw [← e.1, hr0]; decide)
            (by intro t tl e; simp only [List.cons_append, List.nil_append, List.cons.injEq] at e
                rw [← e.1, hr']; decide) hel hel'
          have := List.append_cancel_left he
          simp only [List.cons_append, List.nil_append, List.cons.injEq] at this
          obtain ⟨rfl, _⟩ := this
          exact ⟨rfl, rfl⟩
        | null hk' | tru hk' | fls hk' | num hk' | str hk' =>
          simp only [List.cons_append, List.nil_append, List.cons.injEq] at he
          obtain ⟨rfl, _⟩ := he; rw [hl0] at hk'; cases hk'
        | objE hl' _ | obj hl' _ _ =>
          simp only [List.cons_append, List.nil_append, List.cons.injEq] at he
          obtain ⟨rfl, _⟩ := he; rw [hl0] at hl'; cases hl'
      | @objE l r0 hl0 hr0 =>
        cases h2 with
        | @objE l' r0' _ _ =>
          simp only [List.cons_append, List.nil_append, List.cons.injEq] at he
          obtain ⟨rfl, rfl, _⟩ := he
          exact ⟨rfl, rfl⟩
        | @obj l' r0' ts' ms' _ _ hmem =>
          exfalso
          cases hmem with
          | one hk _ _ | cons hk _ _ _ _ =>
            simp only [List.cons_append, List.nil_append, List.cons.injEq] at he
            obtain ⟨_, h2', _⟩ := he
            rw [← h2', hr0] at hk; cases hk
        | null hk' | tru hk' | fls hk' | num hk' | str hk' =>
          simp only [List.cons_append, List.nil_append, List.cons.injEq] at he
          obtain ⟨rfl, _⟩ := he; rw [hl0] at hk'; cases hk'
        | arrE hl' _ | arr hl' _ _ =>
          simp only [List.cons_append, List.nil_append, List.cons.injEq] at he
          obtain ⟨rfl, _⟩ := he; rw [hl0] at hl'; cases hl'
      | @obj l r0 ts ms hl0 hr0 hmem =>
        cases h2 with
        | @objE l' r0' _ hr' =>
          exfalso
          cases hmem with
          | one hk _ _ | cons hk _ _ _ _ =>
            simp only [List.cons_append, List.nil_append, List.cons.injEq] at he
            obtain ⟨_, h2', _⟩ := he
            rw [h2', hr'] at hk; cases hk
        | @obj l' r0' ts' ms' _ hr' hmem' =>
          simp only [List.cons_append, List.append_assoc, List.cons.injEq] at he
          obtain ⟨rfl, he⟩ := he
          have hlen : (ts ++ ([r0] ++ r)).length ≤ n := by simp at hl ⊢; omega
          obtain ⟨rfl, rfl⟩ := ihM ts ts' ([r0] ++ r) ([r0'] ++ r') ms ms' hlen he
            (by intro t tl e; simp only [List.cons_append, List.nil_append, List.cons.injEq] at e
                rw [← e.1, hr0]; decide)
            (by intro t tl e; simp only [List.cons_append, List.nil_append, List.cons.injEq] at e
                rw [← e.1, hr']; decide) hmem hmem'
          have := List.append_cancel_left he
          simp only [List.cons_append, List.nil_append, List.cons.injEq] at this
          obtain ⟨rfl, _⟩ := this
          exact ⟨rfl, rfl⟩
        | null hk' | tru hk' | fls hk' | num hk' | str hk' =>
          simp only [List.cons_append, List.nil_append, List.cons.injEq] at he
          obtain ⟨rfl, _⟩ := he; rw [hl0] at hk'; cases hk'
        | arrE hl' _ | arr hl' _ _ =>
          simp only [List.cons_append, List.nil_append, List.cons.injEq] at he
          obtain ⟨rfl, _⟩ := he; rw [hl0] at hl'; cases hl'
    refine ⟨hV, ?_, ?_⟩
    · -- elements
      intro ts ts' r r' xs xs' hl he hnc hnc' h1 h2
      cases h1 with
      | @one ts x hv =>
        cases h2 with
        | @one ts' x' hv' =>
          obtain ⟨rfl, rfl⟩ := hV ts ts' r r' x x' hl he hv hv'
          exact ⟨rfl, rfl⟩
        | @cons c' a' rest' x' xs'' hc' hv' hrest' =>
          exfalso
          rw [List.append_assoc] at he
          obtain ⟨rfl, _⟩ := hV ts a' r (c' :: rest' ++ r') x x' hl he hv hv'
          have := List.append_cancel_left he
          exact hnc c' _ this hc'
      | @cons c a rest x xs0 hc hv hrest =>
        cases h2 with
        | @one ts' x' hv' =>
          exfalso
          rw [List.append_assoc] at he
          obtain ⟨rfl, _⟩ := hV a ts' (c :: rest ++ r) r' x x' (by rw [← List.append_assoc]; exact hl) he hv hv'
          have := List.append_cancel_left he
          exact hnc' c _ this.symm hc
        | @cons c' a' rest' x' xs'' hc' hv' hrest' =>
          rw [List.append_assoc, List.append_assoc] at he
          obtain ⟨rfl, rfl⟩ := hV a a' (c :: rest ++ r) (c' :: rest' ++ r') x x'
            (by rw [← List.append_assoc]; exact hl) he hv hv'
          have h3 := List.append_cancel_left he
          simp only [List.cons_append, List.cons.injEq] at h3
          obtain ⟨rfl, h3⟩ := h3
          obtain ⟨t0, tl0, e0, _⟩ := first_of_value hv
          have hlen : (rest ++ r).length ≤ n := by
            have : (a ++ c :: rest ++ r).length ≤ n + 1 := hl
            rw [e0] at this; simp at this ⊢; omega
          obtain ⟨rfl, rfl⟩ := ihE rest rest' r r' xs0 xs'' hlen h3 hnc hnc' hrest hrest'
          exact ⟨rfl, rfl⟩
    · -- members
      intro ts ts' r r' ms ms' hl he hnc hnc' h1 h2
      cases h1 with
      | @one k c a v hk hc hv =>
        cases h2 with
        | @one k' c' a' v' hk' hc' hv' =>
          simp only [List.cons_append, List.cons.injEq] at he
          obtain ⟨rfl, rfl, he⟩ := he
          obtain ⟨rfl, rfl⟩ := hV a a' r r' v v' (by simp at hl ⊢; omega) he hv hv'
          exact ⟨rfl, rfl⟩
        | @cons k' c' m' a' rest' v' ms'' hk' hc' hm' hv' hrest' =>
          exfalso
          simp only [List.cons_append, List.append_assoc, List.cons.injEq] at he
          obtain ⟨rfl, rfl, he⟩ := he
          obtain ⟨rfl, _⟩ := hV a a' r (m' :: rest' ++ r') v v' (by simp at hl ⊢; omega) he hv hv'
          have := List.append_cancel_left he
          exact hnc m' _ this hm'
      | @cons k c m a rest v ms0 hk hc hm hv hrest =>
        cases h2 with
        | @one k' c' a' v' hk' hc' hv' =>
          exfalso
          simp only [List.cons_append, List.append_assoc, List.cons.injEq] at he
          obtain ⟨rfl, rfl, he⟩ := he
          obtain ⟨rfl, _⟩ := hV a a' (m :: rest ++ r) r' v v' (by simp at hl ⊢; omega) he hv hv'
          have := List.append_cancel_left he
          exact hnc' m _ this.symm hm
        | @cons k' c' m' a' rest' v' ms'' hk' hc' hm' hv' hrest' =>
          simp only [List.cons_append, List.append_assoc, List.cons.injEq] at he
          obtain ⟨rfl, rfl, he⟩ := he
          obtain ⟨rfl, rfl⟩ := hV a a' (m :: rest ++ r) (m' :: rest' ++ r') v v' (by simp at hl ⊢; omega) he hv hv'
          have h3 := List.append_cancel_left he
          simp only [List.cons_append, List.cons.injEq] at h3
          obtain ⟨rfl, h3⟩ := h3
          have hlen : (rest ++ r).length ≤ n := by simp at hl ⊢; omega
          obtain ⟨rfl, rfl⟩ := ihM rest rest' r r' ms0 ms'' hlen h3 hnc hnc' hrest hrest'
          exact ⟨rfl, rfl⟩

/-- **the token grammar is unambiguous** -/
theorem tvalue_unique {ph : List Token} {d d' : Doc} (h1 : TValue key ph d) (h2 : TValue key ph d') : d = d' :=
  ((det_aux (key := key) ph.length).1 ph ph [] [] d d' (by simp) rfl h1 h2).2

end ShapeVerif
