/-
The array-of-objects branch of single-document inference, key by key.
For element shapes `object c₀ _ :: rest` whose member values are never `OneOf` (true of every
single-document shape), the merged content maps a key to the shape it has where it first occurs,
made optional unless every element carries the key.
-/
import ShapeVerif.Lemmas.Sorted
import ShapeVerif.Model.Infer
namespace ShapeVerif
open Shape Std

/-- the element (an object shape) carries key `k` -/
def hasKey (k : String) : Shape → Bool
  | .object c _ => (mapGet k c).isSome
  | _ => false

/-- value of key `k` in the first of the shapes that carries it -/
def firstValue (k : String) : List Shape → Option Shape
  | [] => none
  | .object c _ :: rest => match mapGet k c with
    | some v => some v
    | none => firstValue k rest
  | _ :: rest => firstValue k rest

/-- **the specification of the merged object** (C17): a key present in every element carries its
(first) shape, a key present in only some elements carries the optional form -/
def specLookup (k : String) (elems : List Shape) : Option Shape :=
  match firstValue k elems with
  | none => none
  | some s => some (if elems.all (hasKey k) then s else s.asOptional)

theorem asOptional_idem (s : Shape) : s.asOptional.asOptional = s.asOptional := by
  cases s <;> rfl

theorem asOptional_isOneOf (s : Shape) : s.asOptional.isOneOf = s.isOneOf := by
  cases s <;> rfl

theorem mapGet_markMissing (k : String) (acc : Members) (ks : List String) :
    mapGet k (markMissing acc ks) =
      (mapGet k acc).map fun v => if ks.any (fun k' => k' == k) then v else v.asOptional := by
  unfold markMissing
  induction acc with
  | nil => rfl
  | cons a acc ih =>
    obtain ⟨k', v⟩ := a
    simp only [List.map_cons]
    by_cases h : k = k'
    · subst h
      by_cases hk : (ks.any fun k' => k' == k) = true
      · simp [hk, mapGet_cons]
      · simp [hk, mapGet_cons, toOptionalMut, asOptional]
    · have hb : (k == k') = false := by simp [h]
      by_cases hk : (ks.any fun k'' => k'' == k') = true
      · simp only [hk, if_true, mapGet_cons, hb, Bool.false_eq_true, if_false]; exact ih
      · simp only [hk, Bool.false_eq_true, if_false, mapGet_cons, hb]; exact ih

theorem keys_any_eq_hasKey (k : String) (c : Members) :
    (mapKeys c).any (fun k' => k' == k) = (mapGet k c).isSome := by
  induction c with
  | nil => rfl
  | cons a c ih =>
    obtain ⟨k', v⟩ := a
    simp only [mapKeys, List.map_cons, List.any_cons, mapGet_cons] at ih ⊢
    by_cases h : k = k'
    · subst h; simp
    · have h1 : (k == k') = false := by simp [h]
      have h2 : (k' == k) = false := by simp [Ne.symm h]
      simp [h1, h2, ih]

theorem isObject_cases {s : Shape} (h : s.isObject = true) : ∃ c o, s = .object c o := by
  cases s <;> simp [isObject] at h
  exact ⟨_, _, rfl⟩

/-- fold 1: every later element lacking the key makes it optional -/
theorem mapGet_fold1 (k : String) (rest : List Shape) (hobj : rest.all isObject = true) :
    ∀ acc : Members,
    mapGet k (rest.foldl fold1Step acc) =
      (mapGet k acc).map fun v => if rest.all (hasKey k) then v else v.asOptional := by
  induction rest with
  | nil => intro acc; simp only [List.foldl_nil, List.all_nil, if_true]; cases mapGet k acc <;> rfl
  | cons s rest ih =>
    intro acc
    rw [List.all_cons, Bool.and_eq_true] at hobj
    obtain ⟨c, o, rfl⟩ := isObject_cases hobj.1
    rw [List.foldl_cons, ih hobj.2]
    have : fold1Step acc (.object c o) = markMissing acc (mapKeys c) := rfl
    rw [this, mapGet_markMissing, keys_any_eq_hasKey]
    cases mapGet k acc with
    | none => rfl
    | some v =>
      simp only [Option.map_some, List.all_cons, hasKey]
      by_cases h1 : (mapGet k c).isSome = true <;> by_cases h2 : rest.all (hasKey k) = true <;>
        simp [h1, h2, asOptional_idem]

/-- fold 2, one member -/
theorem mapGet_absorbMember (k k' : String) (v : Shape) (acc : Members)
    (hacc : ∀ k s, mapGet k acc = some s → s.isOneOf = false) (hv : v.isOneOf = false) :
    mapGet k (absorbMember acc k' v) =
      match mapGet k acc with
      | some old => some old
      | none => if k == k' then some v.asOptional else none := by
  unfold absorbMember
  simp only [mapGet_mapInsert]
  by_cases h : k = k'
  · subst h
    simp only [beq_self_eq_true, if_true]
    cases hg : mapGet k acc with
    | some old =>
      have := hacc k old hg
      cases old <;> simp_all [Shape.isOneOf]
    | none =>
      have : v.asOptional.isOneOf = false := by rw [asOptional_isOneOf]; exact hv
      simp only
      cases hva : v.asOptional <;> simp_all [Shape.isOneOf]
  · have : (k == k') = false := by simp [h]
    simp only [this]
    cases mapGet k acc <;> simp

theorem absorbMember_noOneOf (k' : String) (v : Shape) (acc : Members)
    (hacc : ∀ k s, mapGet k acc = some s → s.isOneOf = false) (hv : v.isOneOf = false) :
    ∀ k s, mapGet k (absorbMember acc k' v) = some s → s.isOneOf = false := by
  intro k s hs
  rw [mapGet_absorbMember k k' v acc hacc hv] at hs
  cases hg : mapGet k acc with
  | some old => simp [hg] at hs; subst hs; exact hacc k old hg
  | none =>
    simp [hg] at hs
    obtain ⟨_, rfl⟩ := hs
    rw [asOptional_isOneOf]; exact hv

/-- fold 2, one later object -/
theorem mapGet_absorbObject (k : String) (c : Members)
    (hc : ∀ k s, mapGet k c = some s → s.isOneOf = false) (hcm : ∀ kv ∈ c, kv.2.isOneOf = false) :
    ∀ acc : Members, (∀ k s, mapGet k acc = some s → s.isOneOf = false) →
    (mapGet k (absorbObject acc c) =
      match mapGet k acc with
      | some old => some old
      | none => (mapGet k c).map asOptional) ∧
    (∀ k s, mapGet k (absorbObject acc c) = some s → s.isOneOf = false) := by
  unfold absorbObject
  induction c with
  | nil => intro acc hacc; simp [mapGet]; exact ⟨by cases mapGet k acc <;> rfl, hacc⟩
  | cons a c ih =>
    obtain ⟨k', v⟩ := a
    intro acc hacc
    have hv : v.isOneOf = false := hcm (k', v) (by simp)
    have hacc' := absorbMember_noOneOf k' v acc hacc hv
    have hc' : ∀ k s, mapGet k c = some s → s.isOneOf = false := by
      intro k s hs; exact hcm (k, s) (List.mem_cons_of_mem _ (mem_of_mapGet hs))
    obtain ⟨i1, i2⟩ := ih hc' (fun kv hkv => hcm kv (List.mem_cons_of_mem _ hkv)) (absorbMember acc k' v) hacc'
    simp only [List.foldl_cons]
    refine ⟨?_, i2⟩
    rw [i1, mapGet_absorbMember k k' v acc hacc hv, mapGet_cons]
    cases hg : mapGet k acc with
    | some old => rfl
    | none =>
      by_cases h : k = k'
      · subst h; simp
      · have : (k == k') = false := by simp [h]
        simp [this]

/-- all member values of all element shapes are not `OneOf` -/
def noOneOfValues (elems : List Shape) : Prop :=
  ∀ s ∈ elems, ∀ c o, s = .object c o → ∀ kv ∈ c, kv.2.isOneOf = false

theorem mapGet_fold2 (k : String) (rest : List Shape) (hobj : rest.all isObject = true)
    (hno : noOneOfValues rest) :
    ∀ acc : Members, (∀ k s, mapGet k acc = some s → s.isOneOf = false) →
    mapGet k (rest.foldl fold2Step acc) =
      match mapGet k acc with
      | some old => some old
      | none => (firstValue k rest).map asOptional := by
  induction rest with
  | nil => intro acc _; simp only [List.foldl_nil, firstValue]; cases mapGet k acc <;> rfl
  | cons s rest ih =>
    intro acc hacc
    rw [List.all_cons, Bool.and_eq_true] at hobj
    obtain ⟨c, o, rfl⟩ := isObject_cases hobj.1
    have hcm : ∀ kv ∈ c, kv.2.isOneOf = false := hno (.object c o) (by simp) c o rfl
    have hc : ∀ k s, mapGet k c = some s → s.isOneOf = false :=
      fun k s hs => hcm (k, s) (mem_of_mapGet hs)
    obtain ⟨a1, a2⟩ := mapGet_absorbObject k c hc hcm acc hacc
    have hno' : noOneOfValues rest := fun s hs => hno s (List.mem_cons_of_mem _ hs)
    have hstep : fold2Step acc (.object c o) = absorbObject acc c := rfl
    rw [List.foldl_cons, hstep, ih hobj.2 hno' _ a2, a1]
    simp only [firstValue]
    cases mapGet k acc with
    | some old => rfl
    | none =>
      cases mapGet k c with
      | some v => rfl
      | none => rfl

/-- **C17, array of objects**: the merged content, key by key -/
theorem mapGet_mergeObjectElements (k : String) (content : Members) (o : Bool) (rest : List Shape)
    (hobj : rest.all isObject = true) (hno : noOneOfValues (.object content o :: rest)) :
    mapGet k (mergeObjectElements content rest) = specLookup k (.object content o :: rest) := by
  unfold mergeObjectElements specLookup
  have hno' : noOneOfValues rest := fun s hs => hno s (List.mem_cons_of_mem _ hs)
  have hc0 : ∀ kv ∈ content, kv.2.isOneOf = false := hno (.object content o) (by simp) content o rfl
  have hacc : ∀ k' s, mapGet k' (rest.foldl fold1Step content) = some s → s.isOneOf = false := by
    intro k' s hs
    rw [mapGet_fold1 k' rest hobj] at hs
    cases hg : mapGet k' content with
    | none => simp [hg] at hs
    | some v =>
      have hv := hc0 (k', v) (mem_of_mapGet hg)
      rw [hg, Option.map_some] at hs
      split at hs <;> (cases hs)
      · exact hv
      · rw [asOptional_isOneOf]; exact hv
  rw [mapGet_fold2 k rest hobj hno' _ hacc, mapGet_fold1 k rest hobj]
  simp only [firstValue, List.all_cons, hasKey]
  rcases Option.eq_none_or_eq_some (mapGet k content) with hg | ⟨v, hg⟩
  · simp only [hg, Option.map_none, Option.isSome_none, Bool.false_and]
    rcases Option.eq_none_or_eq_some (firstValue k rest) with hf | ⟨w, hf⟩
    · simp [hf]
    · simp [hf]
  · simp [hg]

end ShapeVerif
