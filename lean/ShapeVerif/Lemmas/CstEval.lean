/-
`parse_cst` on the nodes the parser builds in clean mode: it computes `inferDoc` of the document the
tokens spell, whatever whitespace tokens sit between them.
-/
import ShapeVerif.Model.ParseCst
import ShapeVerif.Lemmas.Slice
namespace ShapeVerif
open Shape

def liftS : Except InferErr Shape → Outcome Shape
  | .ok s => .ok s
  | .error e => .err (inferErrToPErr e)

def liftL : Except InferErr (List Shape) → Outcome (List Shape)
  | .ok s => .ok s
  | .error e => .err (inferErrToPErr e)

def liftM : Except InferErr Members → Outcome Members
  | .ok s => .ok s
  | .error e => .err (inferErrToPErr e)

/-- the node evaluates to what `inferDoc` says about `d`, wherever it sits -/
def Evals (src : List Char) (n : Node) (d : Doc) : Prop := ∀ pe, parseRule src pe n = liftS (inferDoc d)

def NoErrNodes (l : List Node) : Prop := ∀ n ∈ l, isErrorNode n = false

theorem findSpan_none_of_noErr : ∀ (cs : List Node) (pe : Nat), NoErrNodes cs → findSpan isErrorNode pe cs = none
  | [], _, _ => rfl
  | n :: ns, pe, h => by
    simp only [findSpan, h n (by simp), Bool.false_eq_true, if_false]
    exact findSpan_none_of_noErr ns _ (fun m hm => h m (by simp [hm]))

theorem hasErrors_ok {src : List Char} {cs : List Node} (h : NoErrNodes cs) (pe : Nat) :
    hasErrors src pe cs = .ok () := by
  simp [hasErrors, findSpan_none_of_noErr cs pe h]

/-! ### array children -/

inductive ElemsRep (src : List Char) : List Node → List Doc → Prop
  | nil : ElemsRep src [] []
  | punct {n : Node} {ns : List Node} {ds : List Doc} : isArrayPunct n = true → ElemsRep src ns ds →
      ElemsRep src (n :: ns) ds
  | val {n : Node} {d : Doc} {ns : List Node} {ds : List Doc} : isArrayPunct n = false → Evals src n d →
      ElemsRep src ns ds → ElemsRep src (n :: ns) (d :: ds)

theorem ElemsRep.append {src : List Char} {a b : List Node} {x y : List Doc} (h1 : ElemsRep src a x)
    (h2 : ElemsRep src b y) : ElemsRep src (a ++ b) (x ++ y) := by
  induction h1 with
  | nil => simpa using h2
  | punct hp _ ih => exact .punct hp ih
  | val hp he _ ih => exact .val hp he ih

theorem parseElements_of_rep {src : List Char} {cs : List Node} {ds : List Doc} (h : ElemsRep src cs ds) :
    ∀ pe, parseElements src pe cs = liftL (inferDocList ds) := by
  induction h with
  | nil => intro pe; simp [parseElements, inferDocList, liftL]
  | punct hp _ ih =>
    intro pe
    unfold parseElements
    simp only [hp, if_true]
    exact ih _
  | @val n d ns ds hp he _ ih =>
    intro pe
    unfold parseElements
    simp only [hp, Bool.false_eq_true, if_false, he pe, ih, inferDocList]
    cases inferDoc d with
    | error e => simp [liftS, liftL]
    | ok s =>
      simp only [liftS]
      cases inferDocList ds with
      | error e => simp [liftL]
      | ok ss => simp [liftL]

theorem evals_array {src : List Char} {cs : List Node} {xs : List Doc} (hne : NoErrNodes cs)
    (h : ElemsRep src cs xs) : Evals src (.rule .array cs) (.arr xs) := by
  intro pe
  unfold parseRule
  simp only [hasErrors_ok hne, parseElements_of_rep h, inferDoc]
  cases inferDocList xs with
  | error e => simp [liftL, liftS]
  | ok es =>
    simp only [liftL]
    cases classifyArray es with
    | error e => simp [liftS]
    | ok s => simp [liftS]

/-! ### object children -/

/-- the children of a `member` rule spell the member `(k, v)` -/
def MemberRep (src : List Char) (cs : List Node) (k : String) (v : Doc) : Prop :=
  ∀ pe content, parseMember src pe cs content =
    liftM (match inferDoc v with
      | .error e => .error e
      | .ok value => addMember content k value)

def isMemberNode : Node → Bool
  | .rule .member _ => true
  | _ => false

inductive MembersRep (src : List Char) : List Node → List (String × Doc) → Prop
  | nil : MembersRep src [] []
  | other {n : Node} {ns : List Node} {ms : List (String × Doc)} : isMemberNode n = false →
      MembersRep src ns ms → MembersRep src (n :: ns) ms
  | mem {cs : List Node} {k : String} {v : Doc} {ns : List Node} {ms : List (String × Doc)} :
      MemberRep src cs k v → MembersRep src ns ms → MembersRep src (.rule .member cs :: ns) ((k, v) :: ms)

theorem MembersRep.append {src : List Char} {a b : List Node} {x y : List (String × Doc)}
    (h1 : MembersRep src a x) (h2 : MembersRep src b y) : MembersRep src (a ++ b) (x ++ y) := by
  induction h1 with
  | nil => simpa using h2
  | other hp _ ih => exact .other hp ih
  | mem hm _ ih => exact .mem hm ih

theorem parseMembers_of_rep {src : List Char} {cs : List Node} {ms : List (String × Doc)}
    (h : MembersRep src cs ms) : ∀ pe content, parseMembers src pe cs content = liftM (inferDocMembers ms content) := by
  induction h with
  | nil => intro pe content; simp [parseMembers, inferDocMembers, liftM]
  | @other n ns ms hp _ ih =>
    intro pe content
    unfold parseMembers
    cases n with
    | tok k a b => simp only; exact ih _ _
    | rule r cs => cases r <;> first | (simp [isMemberNode] at hp; done) | (simp only; exact ih _ _)
  | @mem cs k v ns ms hm _ ih =>
    intro pe content
    unfold parseMembers
    simp only [hm pe content, inferDocMembers]
    cases inferDoc v with
    | error e => simp [liftM]
    | ok value =>
      simp only
      cases addMember content k value with
      | error e => simp [liftM]
      | ok content' => simp only [liftM]; exact ih _ _

theorem evals_object {src : List Char} {cs : List Node} {ms : List (String × Doc)} (hne : NoErrNodes cs)
    (h : MembersRep src cs ms) : Evals src (.rule .object cs) (.obj ms) := by
  intro pe
  unfold parseRule
  simp only [hasErrors_ok hne, parseMembers_of_rep h, inferDoc]
  cases inferDocMembers ms [] with
  | error e => simp [liftM, liftS]
  | ok c => simp [liftM, liftS]

/-! ### literals and members -/

theorem evals_literal_tok {src : List Char} {k : Tok} {a b : Nat} {d : Doc}
    (h : (k = .null_ ∧ d = .null) ∨ (k = .number ∧ ∃ x, d = .num x) ∨ (k = .string ∧ ∃ x, d = .str x)) :
    Evals src (.rule .literal [.tok k a b]) d := by
  intro pe
  have hne : NoErrNodes [.tok k a b] := by
    intro n hn
    simp only [List.mem_singleton] at hn
    subst hn
    rcases h with ⟨rfl, _⟩ | ⟨rfl, _⟩ | ⟨rfl, _⟩ <;> rfl
  unfold parseRule
  simp only [hasErrors_ok hne]
  rcases h with ⟨rfl, rfl⟩ | ⟨rfl, x, rfl⟩ | ⟨rfl, x, rfl⟩ <;> simp [parseToken, inferDoc, liftS]

theorem evals_literal_bool {src : List Char} {cs : List Node} {p : Bool} :
    Evals src (.rule .literal [.rule .boolean cs]) (.bool p) := by
  intro pe
  have hne : NoErrNodes [.rule .boolean cs] := by
    intro n hn
    simp only [List.mem_singleton] at hn
    subst hn
    rfl
  unfold parseRule
  simp only [hasErrors_ok hne]
  simp [parseToken, inferDoc, liftS]

theorem findMemberValue_skip {src : List Char} : ∀ (mid : List Node) (vn : Node) (pe : Nat),
    (∀ n ∈ mid, isValueRule n = false) → isValueRule vn = true →
    ∃ pe', findMemberValue src pe (mid ++ [vn]) = some (parseRule src pe' vn)
  | [], vn, pe, _, hv => ⟨pe, by simp [findMemberValue, hv]⟩
  | m :: mid, vn, pe, hm, hv => by
    have h1 := hm m (by simp)
    obtain ⟨pe', h⟩ := findMemberValue_skip (src := src) mid vn (nodeEnd pe m) (fun n hn => hm n (by simp [hn])) hv
    exact ⟨pe', by simp [findMemberValue, h1, h]⟩

theorem member_rep {src : List Char} {a b : Nat} {mid : List Node} {vn : Node} {v : Doc} {txt : List Char}
    (hmid : ∀ n ∈ mid, isValueRule n = false) (hvn : isValueRule vn = true) (hev : Evals src vn v)
    (hne : NoErrNodes (.tok .string a b :: mid ++ [vn])) (hsl : sliceBytes src a b = some txt)
    (hlen : 2 ≤ txt.length) :
    MemberRep src (.tok .string a b :: mid ++ [vn]) (memberName txt) v := by
  intro pe content
  unfold parseMember
  have hk : findNode isStringTok pe (.tok .string a b :: mid ++ [vn]) = some (.tok .string a b, pe) := by
    simp [findNode, isStringTok]
  simp only [hk, nodeSpan, hsl]
  have : ¬ txt.length < 2 := by omega
  simp only [this, if_false, hasErrors_ok hne]
  obtain ⟨pe', hf⟩ := findMemberValue_skip (src := src) (.tok .string a b :: mid) vn pe
    (by intro n hn; rcases List.mem_cons.1 hn with rfl | hn; · rfl
        · exact hmid n hn) hvn
  rw [hf]
  simp only [hev pe']
  cases inferDoc v with
  | error e => simp [liftS, liftM]
  | ok value =>
    simp only [liftS]
    cases addMember content (memberName txt) value with
    | error e => simp [liftM]
    | ok c => simp [liftM]

end ShapeVerif
