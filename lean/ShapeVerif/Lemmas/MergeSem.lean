/-
Semantic soundness of `merger`: the merged shape admits every document either operand admits.
-/
import ShapeVerif.Lemmas.MergeMembers
import ShapeVerif.Props.C02
namespace ShapeVerif
open Shape Std

/-- bool / number / string / array / object / tuple: the kinds whose only route to `null` is the flag -/
def simple (s : Shape) : Bool := !s.isNull && !s.isOneOf

theorem admits_null_simple {s : Shape} (h : simple s = true) : admits s .null = s.isOptional := by
  cases s <;> simp_all [simple, admits, isOptional, isNull, Shape.isOneOf]

theorem isNull_eq {d : Doc} (h : d.isNull = true) : d = .null := by
  cases d <;> simp_all [Doc.isNull]

theorem admits_null_cases {e : Shape} (h : admits e .null = true) :
    e.isOptional = true ∨ admits e.asNonOptional .null = true := by
  cases e <;> simp_all [admits, isOptional, asNonOptional, withOptional, Doc.isNull]
  rcases h with h | h
  · exact Or.inr h
  · exact Or.inl h

/-- admission by a simple shape splits into the flag (for `null`) and the non-optional form -/
theorem admits_simple_cases {s : Shape} {x : Doc} (h : admits s x = true) :
    (x = .null ∧ (s.isOptional = true ∨ admits s.asNonOptional .null = true)) ∨
    admits s.asNonOptional x = true := by
  by_cases hx : x.isNull = true
  · have := isNull_eq hx; subst this
    exact Or.inl ⟨rfl, admits_null_cases h⟩
  · exact Or.inr (admits_asNonOptional h (by simpa using hx))

/-! ### `mixed` -/

theorem admits_mixed_left {a b : Shape} {x : Doc} (h : admits a x = true) : admits (mixed a b) x = true := by
  unfold mixed
  rcases admits_simple_cases h with ⟨rfl, ho | hn⟩ | hn
  · refine admits_oneOf_of_mem (v := .null) ?_ admits_null_null
    rw [mem_setOfList]; simp [ho]
  · exact admits_oneOf_of_mem (v := a.asNonOptional) (by rw [mem_setOfList]; simp) hn
  · exact admits_oneOf_of_mem (v := a.asNonOptional) (by rw [mem_setOfList]; simp) hn

theorem admits_mixed_right {a b : Shape} {x : Doc} (h : admits b x = true) : admits (mixed a b) x = true := by
  unfold mixed
  rcases admits_simple_cases h with ⟨rfl, ho | hn⟩ | hn
  · refine admits_oneOf_of_mem (v := .null) ?_ admits_null_null
    rw [mem_setOfList]; simp [ho]
  · exact admits_oneOf_of_mem (v := b.asNonOptional) (by rw [mem_setOfList]; simp) hn
  · exact admits_oneOf_of_mem (v := b.asNonOptional) (by rw [mem_setOfList]; simp) hn

/-! ### `addToOneOf` -/

theorem mem_addToOneOf_old {x v : Shape} {vs : List Shape} (h : v ∈ vs) : v ∈ addToOneOf x vs := by
  unfold addToOneOf
  simp only
  rw [mem_setInsert]; right
  split
  · rw [mem_setInsert]; exact Or.inr h
  · exact h

theorem mem_addToOneOf_self {x : Shape} {vs : List Shape} : x.asNonOptional ∈ addToOneOf x vs := by
  unfold addToOneOf
  simp only
  rw [mem_setInsert]; exact Or.inl rfl

theorem mem_addToOneOf_null {x : Shape} {vs : List Shape} (h : x.isOptional = true) :
    Shape.null ∈ addToOneOf x vs := by
  unfold addToOneOf
  simp only
  rw [mem_setInsert]; right
  by_cases hc : setContains .null vs = true
  · simp [h, hc]; exact setContains_iff.1 hc
  · simp [h, hc]; rw [mem_setInsert]; exact Or.inl rfl

theorem admits_addToOneOf_new {x : Shape} {vs : List Shape} {p : Bool} {d : Doc}
    (h : admits x d = true) : admits (.oneOf (addToOneOf x vs) p) d = true := by
  rcases admits_simple_cases h with ⟨rfl, ho | hn⟩ | hn
  · exact admits_oneOf_of_mem (mem_addToOneOf_null ho) admits_null_null
  · exact admits_oneOf_of_mem mem_addToOneOf_self hn
  · exact admits_oneOf_of_mem mem_addToOneOf_self hn

theorem admits_addToOneOf_old {x : Shape} {vs : List Shape} {p q : Bool} {d : Doc}
    (h : admits (.oneOf vs q) d = true) (hq : q = true → p = true) :
    admits (.oneOf (addToOneOf x vs) p) d = true := by
  rw [admits_oneOf, Bool.or_eq_true, Bool.and_eq_true] at h ⊢
  rcases h with h | ⟨h1, h2⟩
  · left
    obtain ⟨v, hv, hvd⟩ := admitsAny_iff.1 h
    exact admitsAny_iff.2 ⟨v, mem_addToOneOf_old hv, hvd⟩
  · exact Or.inr ⟨hq h1, h2⟩

/-! ### array / tuple variant sets -/

theorem mem_arrayElemVariants_init {t v : Shape} {init : List Shape} (h : v ∈ init) :
    v ∈ arrayElemVariants t init := by
  unfold arrayElemVariants
  split
  · rw [mem_setExtend]; left
    split
    · rw [mem_setInsert]; exact Or.inr h
    · exact h
  · rw [mem_setInsert]; exact Or.inr h

theorem admitsAny_arrayElemVariants {t : Shape} {init : List Shape} {x : Doc} (h : admits t x = true) :
    admitsAny (arrayElemVariants t init) x = true := by
  unfold arrayElemVariants
  split
  · rename_i inner io
    rw [admits_oneOf, Bool.or_eq_true, Bool.and_eq_true] at h
    rcases h with h | ⟨h1, h2⟩
    · obtain ⟨v, hv, hvd⟩ := admitsAny_iff.1 h
      exact admitsAny_iff.2 ⟨v, mem_setExtend.2 (Or.inr hv), hvd⟩
    · have := isNull_eq h2; subst this
      refine admitsAny_iff.2 ⟨.null, mem_setExtend.2 (Or.inl ?_), admits_null_null⟩
      simp [h1]; rw [mem_setInsert]; exact Or.inl rfl
  · exact admitsAny_iff.2 ⟨t, mem_setInsert.2 (Or.inl rfl), h⟩

theorem admits_array_of_variants {V : List Shape} {o : Bool} {xs : List Doc}
    (h : ∀ x ∈ xs, admitsAny V x = true) : admits (.array (.oneOf V false) o) (.arr xs) = true := by
  rw [admits_array_arr, List.all_eq_true]
  intro x hx
  rw [admits_oneOf, h x hx]; rfl

/-- documents of a tuple are, element by element, admitted by a variant set holding the non-optional
element shapes (and `Null` when some element is optional) -/
theorem tuple_elems_in_variants {V : List Shape} : ∀ (es : List Shape) (xs : List Doc),
    (∀ e ∈ es, e.asNonOptional ∈ V) → (es.any isOptional = true → Shape.null ∈ V) →
    admitsZip es xs = true → ∀ x ∈ xs, admitsAny V x = true
  | [], [], _, _, _ => by simp
  | [], _ :: _, _, _, h => by simp [admitsZip] at h
  | _ :: _, [], _, _, h => by simp [admitsZip] at h
  | e :: es, x :: xs, hV, hN, h => by
    simp [admitsZip] at h
    intro y hy
    rcases List.mem_cons.1 hy with rfl | hy
    · rcases admits_simple_cases h.1 with ⟨rfl, ho | hn⟩ | hn
      · exact admitsAny_iff.2 ⟨.null, hN (by simp [ho]), admits_null_null⟩
      · exact admitsAny_iff.2 ⟨_, hV e (by simp), hn⟩
      · exact admitsAny_iff.2 ⟨_, hV e (by simp), hn⟩
    · exact tuple_elems_in_variants es xs (fun e' he' => hV e' (by simp [he']))
        (fun ha => hN (by simp only [List.any_cons, ha, Bool.or_true])) h.2 y hy

theorem mem_setExtend_map_asNonOptional {s : List Shape} {es : List Shape} :
    ∀ e ∈ es, e.asNonOptional ∈ setExtend s (es.map asNonOptional) := by
  intro e he
  rw [mem_setExtend]; right
  exact List.mem_map.2 ⟨e, he, rfl⟩

/-! ### objects through `mapGet` -/

theorem admitsKey_eq_mapGet (k : String) (x : Doc) (c : Members) :
    admitsKey k x c = match mapGet k c with
      | some s => admits s x
      | none => false := by
  induction c with
  | nil => rfl
  | cons a c ih =>
    obtain ⟨k', v⟩ := a
    simp only [admitsKey, mapGet_cons]
    split <;> simp [ih]

theorem absentOk_iff_mapGet {c : Members} {ms : List (String × Doc)} (hs : sortedKeys c = true) :
    absentOk c ms = true ↔
      ∀ k s, mapGet k c = some s → hasMember k ms = true ∨ admits s .null = true := by
  rw [absentOk_iff]
  constructor
  · intro h k s hk; exact h (k, s) (mem_of_mapGet hk)
  · intro h kv hkv; exact h kv.1 kv.2 (mapGet_eq_some_of_mem hs hkv)

/-! ### tuples, position by position -/

theorem pickTuple_sound {a b c : Shape} {x : Doc} (ha : a.wf = true) (hb : b.wf = true)
    (hp : pickTuple a b = some c) (h : admits a x = true ∨ admits b x = true) : admits c x = true := by
  unfold pickTuple at hp
  split at hp
  · rename_i hs; cases hp
    rcases h with h | h
    · exact subset_sound a b hb hs x h
    · exact h
  · split at hp
    · rename_i hs; cases hp
      rcases h with h | h
      · exact h
      · exact subset_sound b a ha hs x h
    · split at hp
      · rename_i hn; cases hp
        rcases h with h | h
        · exact admits_asOptional h
        · cases b <;> simp [isNull] at hn
          cases x <;> simp [admits, Doc.isNull] at h
          exact admits_asOptional_null a
      · split at hp
        · rename_i hn; cases hp
          rcases h with h | h
          · cases a <;> simp [isNull] at hn
            cases x <;> simp [admits, Doc.isNull] at h
            exact admits_asOptional_null b
          · exact admits_asOptional h
        · cases hp

theorem pickAll_sound : ∀ (es os folded : List Shape) (xs : List Doc), wfList es = true → wfList os = true →
    es.length = os.length → pickAll es os = some folded →
    (admitsZip es xs = true ∨ admitsZip os xs = true) → admitsZip folded xs = true
  | [], [], folded, xs, _, _, _, hp, h => by
    simp [pickAll] at hp; subst hp; rcases h with h | h <;> exact h
  | [], _ :: _, _, _, _, _, hl, _, _ => by simp at hl
  | _ :: _, [], _, _, _, _, hl, _, _ => by simp at hl
  | e :: es, o :: os, folded, xs, he, ho, hl, hp, h => by
    simp only [pickAll] at hp
    split at hp
    · cases hp
    · rename_i c hc
      split at hp
      · cases hp
      · rename_i cs hcs
        cases hp
        simp [wfList] at he ho
        cases xs with
        | nil => rcases h with h | h <;> simp [admitsZip] at h
        | cons x xs =>
          simp only [admitsZip, Bool.and_eq_true] at h ⊢
          refine ⟨pickTuple_sound he.1 ho.1 hc ?_, ?_⟩
          · rcases h with h | h
            · exact Or.inl h.1
            · exact Or.inr h.1
          · refine pickAll_sound es os cs xs he.2 ho.2 (by simpa using hl) hcs ?_
            rcases h with h | h
            · exact Or.inl h.2
            · exact Or.inr h.2

end ShapeVerif
