/-
`merger` preserves `tupleFlat` (no `OneOf` directly inside a `Tuple`), and inference yields plain shapes.
-/
import ShapeVerif.Lemmas.SubsetKeeps
import ShapeVerif.Lemmas.InferSpec
namespace ShapeVerif
open Shape Std

theorem tupleFlat_withOptional (q : Bool) (s : Shape) : (withOptional q s).tupleFlat = s.tupleFlat := by
  cases s <;> simp [withOptional, Shape.tupleFlat]

theorem isOneOf_withOptional (q : Bool) (s : Shape) : (withOptional q s).isOneOf = s.isOneOf := by
  cases s <;> rfl

theorem tupleFlat_asOptional {s : Shape} (h : s.tupleFlat = true) : s.asOptional.tupleFlat = true := by
  unfold asOptional; rw [tupleFlat_withOptional]; exact h
theorem tupleFlat_asNonOptional {s : Shape} (h : s.tupleFlat = true) : s.asNonOptional.tupleFlat = true := by
  unfold asNonOptional; rw [tupleFlat_withOptional]; exact h

theorem tupleFlat_oneOf_iff {vs : List Shape} {o : Bool} :
    (Shape.oneOf vs o).tupleFlat = true ↔ ∀ v ∈ vs, v.tupleFlat = true := by
  simp [Shape.tupleFlat, tupleFlatList_iff]

theorem tupleFlat_mixed {a b : Shape} (ha : a.tupleFlat = true) (hb : b.tupleFlat = true) :
    (mixed a b).tupleFlat = true := by
  unfold mixed
  rw [tupleFlat_oneOf_iff]
  intro s hs
  rw [mem_setOfList] at hs
  simp only [List.mem_append, List.mem_cons, List.not_mem_nil, or_false] at hs
  rcases hs with (rfl | rfl) | hs
  · exact tupleFlat_asNonOptional ha
  · exact tupleFlat_asNonOptional hb
  · split at hs
    · simp at hs; subst hs; rfl
    · simp at hs

theorem tupleFlat_addToOneOf {x : Shape} {vs : List Shape} {p : Bool} (hx : x.tupleFlat = true)
    (hv : (Shape.oneOf vs p).tupleFlat = true) : (Shape.oneOf (addToOneOf x vs) p).tupleFlat = true := by
  rw [tupleFlat_oneOf_iff] at hv ⊢
  intro v hvm
  unfold addToOneOf at hvm
  simp only at hvm
  rcases mem_setInsert.1 hvm with rfl | hvm
  · exact tupleFlat_asNonOptional hx
  · split at hvm
    · rcases mem_setInsert.1 hvm with rfl | hvm
      · rfl
      · exact hv v hvm
    · exact hv v hvm

theorem tupleFlat_array_tuple {t : Shape} {es : List Shape} {o : Bool} (ht : t.tupleFlat = true)
    (he : ∀ e ∈ es, e.tupleFlat = true) :
    (Shape.array (.oneOf (setExtend (arrayElemVariants t
      (if es.any isOptional || t.isOptional then setInsert .null [] else [])) (es.map asNonOptional)) false)
      o).tupleFlat = true := by
  simp only [Shape.tupleFlat]
  rw [tupleFlatList_iff]
  intro v hv
  rcases mem_arrayTupleVariants.1 hv with hv | ⟨e, he', rfl⟩
  · unfold arrayElemVariants at hv
    split at hv
    · rename_i inner io
      rw [tupleFlat_oneOf_iff] at ht
      rcases mem_setExtend.1 hv with hv | hv
      · split at hv
        · rcases mem_setInsert.1 hv with rfl | hv
          · rfl
          · split at hv
            · simp [setInsert] at hv; subst hv; rfl
            · cases hv
        · split at hv
          · simp [setInsert] at hv; subst hv; rfl
          · cases hv
      · exact ht v hv
    · rcases mem_setInsert.1 hv with rfl | hv
      · exact ht
      · split at hv
        · simp [setInsert] at hv; subst hv; rfl
        · cases hv
  · exact tupleFlat_asNonOptional (he e he')

theorem pickTuple_flat {a b c : Shape} (ha : a.tupleFlat = true ∧ a.isOneOf = false)
    (hb : b.tupleFlat = true ∧ b.isOneOf = false) (hp : pickTuple a b = some c) :
    c.tupleFlat = true ∧ c.isOneOf = false := by
  unfold pickTuple at hp
  repeat' split at hp
  all_goals first
    | (cases hp; assumption)
    | (cases hp; exact ⟨tupleFlat_asOptional ha.1, by unfold asOptional; rw [isOneOf_withOptional]; exact ha.2⟩)
    | (cases hp; exact ⟨tupleFlat_asOptional hb.1, by unfold asOptional; rw [isOneOf_withOptional]; exact hb.2⟩)
    | cases hp

theorem pickAll_flat : ∀ (es os folded : List Shape),
    (∀ e ∈ es, e.tupleFlat = true ∧ e.isOneOf = false) → (∀ e ∈ os, e.tupleFlat = true ∧ e.isOneOf = false) →
    pickAll es os = some folded → ∀ e ∈ folded, e.tupleFlat = true ∧ e.isOneOf = false
  | [], _, folded, _, _, hp => by simp [pickAll] at hp; subst hp; simp
  | _ :: _, [], folded, _, _, hp => by simp [pickAll] at hp; subst hp; simp
  | e :: es, o :: os, folded, he, ho, hp => by
    simp only [pickAll] at hp
    split at hp
    · cases hp
    · rename_i c hc
      split at hp
      · cases hp
      · rename_i cs hcs
        cases hp
        intro x hx
        rcases List.mem_cons.1 hx with rfl | hx
        · exact pickTuple_flat (he e (by simp)) (ho o (by simp)) hc
        · exact pickAll_flat es os cs (fun y hy => he y (by simp [hy])) (fun y hy => ho y (by simp [hy])) hcs x hx

theorem tuple_flat_elems {es : List Shape} {o : Bool} (h : (Shape.tuple es o).tupleFlat = true) :
    ∀ e ∈ es, e.tupleFlat = true ∧ e.isOneOf = false := by
  intro e he
  refine ⟨?_, tuple_elems_not_oneOf h e he⟩
  simp only [Shape.tupleFlat, Bool.and_eq_true] at h
  exact tupleFlatList_iff.1 h.2 e he

theorem merger_tupleFlat_aux (n : Nat) : ∀ a b : Shape, sizeOf a ≤ n → a.wf = true → b.wf = true →
    a.tupleFlat = true → b.tupleFlat = true → (merger a b).tupleFlat = true := by
  induction n with
  | zero => intro a b h; cases a <;> simp at h
  | succ n ih =>
  intro a b hn haw hbw ha hb
  cases a with
  | null => simp only [merger]; exact tupleFlat_asOptional hb
  | bool o =>
    cases b with
    | null => simp [merger, Shape.tupleFlat]
    | bool p => simp [merger, Shape.tupleFlat]
    | oneOf vs p => simp only [merger]; exact tupleFlat_addToOneOf ha hb
    | _ => simp only [merger]; exact tupleFlat_mixed ha hb
  | number o =>
    cases b with
    | null => simp [merger, Shape.tupleFlat]
    | number p => simp [merger, Shape.tupleFlat]
    | oneOf vs p => simp only [merger]; exact tupleFlat_addToOneOf ha hb
    | _ => simp only [merger]; exact tupleFlat_mixed ha hb
  | string o =>
    cases b with
    | null => simp [merger, Shape.tupleFlat]
    | string p => simp [merger, Shape.tupleFlat]
    | oneOf vs p => simp only [merger]; exact tupleFlat_addToOneOf ha hb
    | _ => simp only [merger]; exact tupleFlat_mixed ha hb
  | array t o =>
    cases b with
    | null => simpa [merger, Shape.tupleFlat] using ha
    | array t' p =>
      simp only [merger, Shape.tupleFlat, Shape.wf] at ha hb haw hbw ⊢
      exact ih t t' (by simp at hn; omega) haw hbw ha hb
    | tuple es ot =>
      simp only [merger]
      simp only [Shape.tupleFlat] at ha
      exact tupleFlat_array_tuple ha (fun e he => (tuple_flat_elems hb e he).1)
    | oneOf vs p => simp only [merger]; exact tupleFlat_addToOneOf ha hb
    | _ => simp only [merger]; exact tupleFlat_mixed ha hb
  | object c o =>
    cases b with
    | null => simpa [merger, Shape.tupleFlat] using ha
    | object oc p =>
      rw [merger_object_object]
      simp only [Shape.wf, Bool.and_eq_true] at haw hbw
      simp only [Shape.tupleFlat] at ha hb ⊢
      rw [tupleFlatMembers_iff]
      intro ⟨k, s⟩ hks
      have hget := mapGet_eq_some_of_mem (sortedKeys_mergedContent c oc) hks
      rw [mapGet_mergedContent haw.1 hbw.1] at hget
      cases hv : mapGet k c with
      | none =>
        cases hov : mapGet k oc with
        | none => simp [hv, hov] at hget
        | some ov =>
          simp [hv, hov] at hget; subst hget
          exact tupleFlat_asOptional (tupleFlatMembers_iff.1 hb _ (mem_of_mapGet hov))
      | some v =>
        cases hov : mapGet k oc with
        | none =>
          simp [hv, hov] at hget; subst hget
          exact tupleFlat_asOptional (tupleFlatMembers_iff.1 ha _ (mem_of_mapGet hv))
        | some ov =>
          simp [hv, hov] at hget; subst hget
          have : sizeOf v ≤ n := by
            have := sizeOf_lt_of_mapGet hv; simp at hn; omega
          exact ih v ov this (wf_of_mapGet haw.2 hv) (wf_of_mapGet hbw.2 hov)
            (tupleFlatMembers_iff.1 ha _ (mem_of_mapGet hv)) (tupleFlatMembers_iff.1 hb _ (mem_of_mapGet hov))
    | oneOf vs p => simp only [merger]; exact tupleFlat_addToOneOf ha hb
    | _ => simp only [merger]; exact tupleFlat_mixed ha hb
  | oneOf vs o =>
    cases b with
    | null => simpa [merger, Shape.tupleFlat] using ha
    | oneOf ws p =>
      simp only [merger]
      rw [tupleFlat_oneOf_iff] at ha hb ⊢
      intro v hv
      rcases mem_setExtend.1 hv with h | h
      · exact ha v h
      · exact hb v h
    | _ => simp only [merger]; exact tupleFlat_addToOneOf hb ha
  | tuple es o =>
    cases b with
    | null => simpa [merger, Shape.tupleFlat] using ha
    | array t p =>
      simp only [merger]
      simp only [Shape.tupleFlat] at hb
      exact tupleFlat_array_tuple hb (fun e he => (tuple_flat_elems ha e he).1)
    | tuple os p =>
      simp only [merger]
      split
      · rename_i folded _ hpick
        have := pickAll_flat es os folded (tuple_flat_elems ha) (tuple_flat_elems hb) hpick
        simp only [Shape.tupleFlat, Bool.and_eq_true, List.all_eq_true]
        refine ⟨fun e he => by simp [(this e he).2], ?_⟩
        rw [tupleFlatList_iff]; exact fun e he => (this e he).1
      · simp only [Shape.tupleFlat]
        rw [tupleFlatList_iff]
        intro v hv
        rcases mem_setExtend.1 hv with hv | hv
        · rcases mem_setExtend.1 hv with hv | hv
          · split at hv
            · simp [setInsert] at hv; subst hv; rfl
            · cases hv
          · obtain ⟨e, he, rfl⟩ := List.mem_map.1 hv
            exact tupleFlat_asNonOptional (tuple_flat_elems ha e he).1
        · obtain ⟨e, he, rfl⟩ := List.mem_map.1 hv
          exact tupleFlat_asNonOptional (tuple_flat_elems hb e he).1
    | oneOf vs p => simp only [merger]; exact tupleFlat_addToOneOf ha hb
    | _ => simp only [merger]; exact tupleFlat_mixed ha hb

theorem merger_tupleFlat {a b : Shape} (haw : a.wf = true) (hbw : b.wf = true) (ha : a.tupleFlat = true)
    (hb : b.tupleFlat = true) : (merger a b).tupleFlat = true :=
  merger_tupleFlat_aux (sizeOf a) a b (Nat.le_refl _) haw hbw ha hb

end ShapeVerif
