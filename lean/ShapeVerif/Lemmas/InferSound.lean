/-
Single-document inference: the inferred shape is never a `OneOf`, is well-formed, and (outside the
D3 class, `conflictFree`) admits the document it was inferred from.
-/
import ShapeVerif.Lemmas.InferObjects
import ShapeVerif.Lemmas.MergeWf
namespace ShapeVerif
open Shape Std

/-- positional relation between two lists -/
def Pointwise {α β : Type} (R : α → β → Prop) : List α → List β → Prop
  | [], [] => True
  | a :: as, b :: bs => R a b ∧ Pointwise R as bs
  | _, _ => False

theorem inferDocList_ok : ∀ (xs : List Doc) (ss : List Shape), inferDocList xs = .ok ss →
    Pointwise (fun x s => inferDoc x = .ok s) xs ss
  | [], ss, h => by simp [inferDocList] at h; subst h; trivial
  | x :: xs, ss, h => by
    simp only [inferDocList] at h
    split at h
    · cases h
    · rename_i s hs
      split at h
      · cases h
      · rename_i ss' hss
        cases h
        exact ⟨hs, inferDocList_ok xs ss' hss⟩

theorem Pointwise.mem_right {α β : Type} {R : α → β → Prop} : ∀ {as : List α} {bs : List β},
    Pointwise R as bs → ∀ b ∈ bs, ∃ a ∈ as, R a b
  | [], [], _, b, hb => by cases hb
  | [], _ :: _, h, _, _ => by cases h
  | _ :: _, [], h, _, _ => by cases h
  | a :: as, b' :: bs, h, b, hb => by
    rcases List.mem_cons.1 hb with rfl | hb
    · exact ⟨a, by simp, h.1⟩
    · obtain ⟨a', ha', hr⟩ := Pointwise.mem_right h.2 b hb
      exact ⟨a', by simp [ha'], hr⟩

theorem Pointwise.mem_left {α β : Type} {R : α → β → Prop} : ∀ {as : List α} {bs : List β},
    Pointwise R as bs → ∀ a ∈ as, ∃ b ∈ bs, R a b
  | [], [], _, a, ha => by cases ha
  | [], _ :: _, h, _, _ => by cases h
  | _ :: _, [], h, _, _ => by cases h
  | a' :: as, b :: bs, h, a, ha => by
    rcases List.mem_cons.1 ha with rfl | ha
    · exact ⟨b, by simp, h.1⟩
    · obtain ⟨b', hb', hr⟩ := Pointwise.mem_left h.2 a ha
      exact ⟨b', by simp [hb'], hr⟩

theorem Pointwise.length_eq {α β : Type} {R : α → β → Prop} : ∀ {as : List α} {bs : List β},
    Pointwise R as bs → as.length = bs.length
  | [], [], _ => rfl
  | [], _ :: _, h => by cases h
  | _ :: _, [], h => by cases h
  | _ :: as, _ :: bs, h => by simp [Pointwise.length_eq h.2]

/-! ### classification never yields a `OneOf` -/

theorem classifyArray_not_oneOf {es : List Shape} {s : Shape} (h : classifyArray es = .ok s) :
    s.isOneOf = false := by
  unfold classifyArray at h
  repeat' split at h
  all_goals first
    | (cases h; rfl)
    | cases h

theorem inferDoc_not_oneOf {d : Doc} {s : Shape} (h : inferDoc d = .ok s) : s.isOneOf = false := by
  cases d with
  | null => simp [inferDoc] at h; subst h; rfl
  | bool b => simp [inferDoc] at h; subst h; rfl
  | num n => simp [inferDoc] at h; subst h; rfl
  | str n => simp [inferDoc] at h; subst h; rfl
  | arr xs =>
    simp only [inferDoc] at h
    split at h
    · cases h
    · exact classifyArray_not_oneOf h
  | obj ms =>
    simp only [inferDoc] at h
    split at h
    · cases h
    · cases h; rfl

/-! ### `allEqual` -/

theorem allEqual_iff_all_eq_head : ∀ (a : Shape) (l : List Shape),
    allEqual (a :: l) = true ↔ ∀ x ∈ l, x = a
  | a, [] => by simp [allEqual]
  | a, b :: l => by
    simp only [allEqual, Bool.and_eq_true, beq_iff]
    rw [allEqual_iff_all_eq_head b l]
    constructor
    · rintro ⟨rfl, h⟩ x hx
      rcases List.mem_cons.1 hx with rfl | hx
      · rfl
      · exact h x hx
    · intro h
      have hb : b = a := h b (by simp)
      subst hb
      exact ⟨rfl, fun x hx => h x (by simp [hx])⟩

end ShapeVerif

namespace ShapeVerif
open Shape Std

/-! ### well-formedness of inferred shapes -/

def MapOk (m : Members) : Prop := sortedKeys m = true ∧ wfMembers m = true

theorem wfMembers_mapInsert {k : String} {v : Shape} {m : Members} (hv : v.wf = true)
    (hm : wfMembers m = true) : wfMembers (mapInsert k v m) = true := by
  rw [wfMembers_iff] at *
  intro kv hkv
  rcases mem_mapInsert hkv with rfl | h
  · exact hv
  · exact hm kv h

theorem MapOk_mapInsert {k : String} {v : Shape} {m : Members} (hv : v.wf = true) (hm : MapOk m) :
    MapOk (mapInsert k v m) := ⟨sortedKeys_mapInsert hm.1, wfMembers_mapInsert hv hm.2⟩

theorem MapOk_markMissing {acc : Members} (ks : List String) (h : MapOk acc) : MapOk (markMissing acc ks) := by
  unfold markMissing
  constructor
  · apply sortedKeys_of_keys_eq (l2 := acc) _ h.1
    rw [List.map_map]
    apply List.map_congr_left
    intro kv _
    simp only [Function.comp]
    split <;> rfl
  · rw [wfMembers_iff]
    intro kv hkv
    obtain ⟨kv0, hkv0, rfl⟩ := List.mem_map.1 hkv
    have := (wfMembers_iff.1 h.2) kv0 hkv0
    split
    · exact this
    · simp only [toOptionalMut]; rw [wf_withOptional]; exact this

theorem absorb_cur_wf {cur v : Shape} (hv : v.wf = true) (hcur : cur.wf = true) :
    (match cur with
      | .oneOf vs o => Shape.oneOf (setInsert v vs) o
      | other => other).wf = true := by
  split
  · rw [wf_oneOf_iff] at hcur ⊢
    exact ⟨sortedSet_setInsert hcur.1, wfList_setInsert hv hcur.2⟩
  · exact hcur

theorem MapOk_absorbMember {acc : Members} {k : String} {v : Shape} (hv : v.wf = true) (h : MapOk acc) :
    MapOk (absorbMember acc k v) := by
  unfold absorbMember
  apply MapOk_mapInsert _ h
  apply absorb_cur_wf hv
  split
  · rename_i old hg; exact wf_of_mapGet h.2 hg
  · exact wf_asOptional hv

theorem MapOk_absorbObject {c : Members} (hc : wfMembers c = true) :
    ∀ {acc : Members}, MapOk acc → MapOk (absorbObject acc c) := by
  unfold absorbObject
  induction c with
  | nil => intro acc h; exact h
  | cons a c ih =>
    obtain ⟨k, v⟩ := a
    simp [wfMembers] at hc
    intro acc h
    simp only [List.foldl_cons]
    exact ih hc.2 (MapOk_absorbMember hc.1 h)

theorem MapOk_mergeObjectElements {content : Members} {rest : List Shape} (h : MapOk content)
    (hr : wfList rest = true) : MapOk (mergeObjectElements content rest) := by
  unfold mergeObjectElements
  have h1 : ∀ (l : List Shape) acc, MapOk acc → MapOk (l.foldl fold1Step acc) := by
    intro l
    induction l with
    | nil => intro acc h; exact h
    | cons s l ih =>
      intro acc h
      simp only [List.foldl_cons]
      apply ih
      unfold fold1Step
      split
      · exact MapOk_markMissing _ h
      · exact h
  have h2 : ∀ (l : List Shape) acc, wfList l = true → MapOk acc → MapOk (l.foldl fold2Step acc) := by
    intro l
    induction l with
    | nil => intro acc _ h; exact h
    | cons s l ih =>
      intro acc hl h
      simp [wfList] at hl
      simp only [List.foldl_cons]
      apply ih _ hl.2
      unfold fold2Step
      split
      · rename_i c o
        simp only [Shape.wf, Bool.and_eq_true] at hl
        exact MapOk_absorbObject hl.1.2 h
      · exact h
  exact h2 rest _ hr (h1 rest content h)

theorem classifyArray_wf {es : List Shape} {s : Shape} (hw : wfList es = true)
    (h : classifyArray es = .ok s) : s.wf = true := by
  unfold classifyArray at h
  split at h
  · split at h
    · rename_i first rest
      cases h
      simp [wfList] at hw
      simpa [Shape.wf] using hw.1
    · cases h; rfl
  · split at h
    · split at h
      · rename_i content o rest _ _
        cases h
        simp only [wfList, Shape.wf, Bool.and_eq_true] at hw
        have := MapOk_mergeObjectElements (content := content) (rest := rest) ⟨hw.1.1, hw.1.2⟩ hw.2
        simp only [Shape.wf, Bool.and_eq_true]
        exact this
      · cases h
    · split at h
      · cases h; simpa [Shape.wf] using hw
      · cases h; rfl

theorem addMember_wf {content content' : Members} {k : String} {v : Shape} (hv : v.wf = true)
    (h : MapOk content) (ha : addMember content k v = .ok content') : MapOk content' := by
  unfold addMember at ha
  split at ha
  · split at ha
    · cases ha
    · cases ha; exact h
  · split at ha
    · cases ha
    · cases ha; exact h
  · cases ha; exact MapOk_mapInsert hv h

theorem infer_wf_aux (n : Nat) : ∀ (d : Doc) (s : Shape), sizeOf d ≤ n → inferDoc d = .ok s → s.wf = true := by
  induction n with
  | zero => intro d s h; cases d <;> simp at h
  | succ n ih =>
    intro d s hn h
    cases d with
    | null => simp [inferDoc] at h; subst h; rfl
    | bool b => simp [inferDoc] at h; subst h; rfl
    | num x => simp [inferDoc] at h; subst h; rfl
    | str x => simp [inferDoc] at h; subst h; rfl
    | arr xs =>
      simp only [inferDoc] at h
      split at h
      · cases h
      · rename_i es hes
        apply classifyArray_wf _ h
        rw [wfList_iff]
        intro e he
        obtain ⟨x, hx, hxe⟩ := (inferDocList_ok xs es hes).mem_right e he
        have : sizeOf x < sizeOf xs := List.sizeOf_lt_of_mem hx
        exact ih x e (by simp at hn; omega) hxe
    | obj ms =>
      simp only [inferDoc] at h
      split at h
      · cases h
      · rename_i content hc
        cases h
        have key : ∀ (ms' : List (String × Doc)) (acc content : Members),
            (∀ kv ∈ ms', sizeOf kv.2 ≤ n) → MapOk acc → inferDocMembers ms' acc = .ok content →
            MapOk content := by
          intro ms'
          induction ms' with
          | nil => intro acc content _ ha hc; simp [inferDocMembers] at hc; subst hc; exact ha
          | cons m ms' ihm =>
            obtain ⟨k, v⟩ := m
            intro acc content hsz ha hc
            simp only [inferDocMembers] at hc
            split at hc
            · cases hc
            · rename_i value hv
              split at hc
              · cases hc
              · rename_i content' hadd
                have hvwf := ih v value (hsz (k, v) (by simp)) hv
                exact ihm content' content (fun kv hkv => hsz kv (by simp [hkv]))
                  (addMember_wf hvwf ha hadd) hc
        have hsz : ∀ kv ∈ ms, sizeOf kv.2 ≤ n := by
          intro kv hkv
          have := List.sizeOf_lt_of_mem hkv
          obtain ⟨k, v⟩ := kv
          simp at this hn ⊢
          omega
        have := key ms [] content hsz ⟨rfl, rfl⟩ hc
        simp only [Shape.wf, Bool.and_eq_true]
        exact this

/-- the shape inferred from any document is well-formed -/
theorem infer_wf {d : Doc} {s : Shape} (h : inferDoc d = .ok s) : s.wf = true :=
  infer_wf_aux (sizeOf d) d s (Nat.le_refl _) h

end ShapeVerif

namespace ShapeVerif
open Shape Std

/-! ### soundness of single-document inference outside the D3 class -/

theorem shapesOf_inferEach : ∀ (xs : List Doc) (es : List Shape), inferDocList xs = .ok es →
    shapesOf (inferEach xs) = es
  | [], es, h => by simp [inferDocList] at h; subst h; rfl
  | x :: xs, es, h => by
    simp only [inferDocList] at h
    split at h
    · cases h
    · rename_i s hs
      split at h
      · cases h
      · rename_i ss hss
        cases h
        simp [inferEach, shapesOf, hs]
        exact shapesOf_inferEach xs ss hss

theorem conflictFreeList_mem : ∀ {xs : List Doc}, conflictFreeList xs = true → ∀ x ∈ xs, conflictFree x = true
  | [], _, _, hx => by cases hx
  | y :: ys, h, x, hx => by
    simp [conflictFreeList] at h
    rcases List.mem_cons.1 hx with rfl | hx
    · exact h.1
    · exact conflictFreeList_mem h.2 x hx

theorem conflictFreeMembers_mem : ∀ {ms : List (String × Doc)}, conflictFreeMembers ms = true →
    ∀ kv ∈ ms, conflictFree kv.2 = true
  | [], _, _, hx => by cases hx
  | (k, v) :: ys, h, x, hx => by
    simp [conflictFreeMembers] at h
    rcases List.mem_cons.1 hx with rfl | hx
    · exact h.1
    · exact conflictFreeMembers_mem h.2 x hx

/-- bookkeeping of `inferDocMembers`, given soundness for the member values -/
theorem inferDocMembers_spec (P : Doc → Prop)
    (hP : ∀ v s, P v → inferDoc v = .ok s → admits s v = true) :
    ∀ (ms : List (String × Doc)) (acc content : Members), (∀ kv ∈ ms, P kv.2) →
    inferDocMembers ms acc = .ok content →
    (∀ k s, mapGet k acc = some s → mapGet k content = some s) ∧
    (∀ kv ∈ ms, ∃ s', mapGet kv.1 content = some s' ∧ admits s' kv.2 = true) ∧
    (∀ k s, mapGet k content = some s → mapGet k acc = some s ∨ hasMember k ms = true) ∧
    ((∀ kv ∈ acc, kv.2.isOneOf = false) → ∀ kv ∈ content, kv.2.isOneOf = false) := by
  intro ms
  induction ms with
  | nil =>
    intro acc content _ h
    simp [inferDocMembers] at h; subst h
    exact ⟨fun _ _ h => h, by simp, fun _ _ h => Or.inl h, fun h => h⟩
  | cons m ms ih =>
    obtain ⟨k, v⟩ := m
    intro acc content hPm h
    simp only [inferDocMembers] at h
    split at h
    · cases h
    · rename_i value hv
      split at h
      · cases h
      · rename_i content' hadd
        have hval : admits value v = true := hP v value (hPm (k, v) (by simp)) hv
        obtain ⟨i1, i2, i3, i4⟩ := ih content' content (fun kv hkv => hPm kv (by simp [hkv])) h
        -- what addMember did
        have hstep : (∀ k' s, mapGet k' acc = some s → mapGet k' content' = some s) ∧
            (∃ s', mapGet k content' = some s' ∧ admits s' v = true) ∧
            (∀ k' s, mapGet k' content' = some s → mapGet k' acc = some s ∨ k' = k) ∧
            ((∀ kv ∈ acc, kv.2.isOneOf = false) → ∀ kv ∈ content', kv.2.isOneOf = false) := by
          unfold addMember at hadd
          split at hadd
          · rename_i vs o hg
            split at hadd
            · cases hadd
            · rename_i hc
              cases hadd
              refine ⟨fun _ _ h => h, ⟨_, hg, ?_⟩, fun _ _ h => Or.inl h, fun h => h⟩
              have : setContains value vs = true := by simpa using hc
              exact admits_oneOf_of_mem (setContains_iff.1 this) hval
          · rename_i other _ hg
            split at hadd
            · cases hadd
            · rename_i hc
              cases hadd
              have : value = other := by
                have : cmp value other = .eq := by simpa using hc
                exact (cmp_eq_iff _ _).1 this
              subst this
              exact ⟨fun _ _ h => h, ⟨_, hg, hval⟩, fun _ _ h => Or.inl h, fun h => h⟩
          · rename_i hg
            cases hadd
            refine ⟨?_, ⟨value, ?_, hval⟩, ?_, ?_⟩
            · intro k' s hs
              rw [mapGet_mapInsert]
              by_cases hk : k' = k
              · subst hk; rw [hg] at hs; cases hs
              · simp [hk, hs]
            · rw [mapGet_mapInsert]; simp
            · intro k' s hs
              rw [mapGet_mapInsert] at hs
              by_cases hk : k' = k
              · exact Or.inr hk
              · simp [hk] at hs; exact Or.inl hs
            · intro hacc kv hkv
              rcases mem_mapInsert hkv with rfl | hkv
              · exact inferDoc_not_oneOf hv
              · exact hacc kv hkv
        obtain ⟨s1, s2, s3, s4⟩ := hstep
        refine ⟨fun k' s hs => i1 k' s (s1 k' s hs), ?_, ?_, fun hacc => i4 (s4 hacc)⟩
        · intro kv hkv
          rcases List.mem_cons.1 hkv with rfl | hkv
          · obtain ⟨s', hs', hadm⟩ := s2
            exact ⟨s', i1 k s' hs', hadm⟩
          · exact i2 kv hkv
        · intro k' s hs
          rcases i3 k' s hs with h' | h'
          · rcases s3 k' s h' with h'' | h''
            · exact Or.inl h''
            · subst h''; right; simp [hasMember]
          · right; simp only [hasMember, List.any_cons] at h' ⊢; simp [h']

theorem firstValue_some {k : String} {s : Shape} : ∀ {elems : List Shape}, firstValue k elems = some s →
    ∃ c o, Shape.object c o ∈ elems ∧ mapGet k c = some s
  | [], h => by simp [firstValue] at h
  | e :: rest, h => by
    cases e
    case object c o =>
      simp only [firstValue] at h
      split at h
      · rename_i v hv; cases h; exact ⟨c, o, by simp, hv⟩
      · obtain ⟨c', o', hm, hg⟩ := firstValue_some h
        exact ⟨c', o', by simp [hm], hg⟩
    all_goals
      simp only [firstValue] at h
      obtain ⟨c', o', hm, hg⟩ := firstValue_some h
      exact ⟨c', o', by simp [hm], hg⟩

theorem firstValue_isSome {k : String} {c : Members} {o : Bool} {v : Shape} :
    ∀ {elems : List Shape}, Shape.object c o ∈ elems → mapGet k c = some v →
    ∃ s, firstValue k elems = some s
  | [], h, _ => by cases h
  | e :: rest, h, hg => by
    cases e
    case object c' o' =>
      simp only [firstValue]
      split
      · exact ⟨_, rfl⟩
      · rcases List.mem_cons.1 h with h | h
        · cases h; rename_i hn; rw [hg] at hn; cases hn
        · exact firstValue_isSome h hg
    all_goals
      simp only [firstValue]
      rcases List.mem_cons.1 h with h | h
      · cases h
      · exact firstValue_isSome h hg

theorem keysAgree_spec {elems : List Shape} (h : keysAgree elems = true) {ca cb : Members} {oa ob : Bool}
    (ha : Shape.object ca oa ∈ elems) (hb : Shape.object cb ob ∈ elems) {k : String} {v v' : Shape}
    (hva : mapGet k ca = some v) (hvb : mapGet k cb = some v') : v = v' := by
  unfold keysAgree at h
  rw [List.all_eq_true] at h
  have := h _ ha
  rw [List.all_eq_true] at this
  have := this _ hb
  simp only at this
  rw [List.all_eq_true] at this
  have := this (k, v) (mem_of_mapGet hva)
  simp only [hvb] at this
  exact (cmp_eq_iff _ _).1 (by simpa using this)

theorem all_hasKey_false_of_missing {k : String} {c : Members} {o : Bool} {elems : List Shape}
    (hm : Shape.object c o ∈ elems) (hg : mapGet k c = none) : elems.all (hasKey k) = false := by
  apply Bool.eq_false_iff.2
  intro h
  rw [List.all_eq_true] at h
  have := h _ hm
  simp [hasKey, hg] at this

/-- one element document of an array of objects is admitted by the merged object -/
theorem element_admitted {elems : List Shape} {M c : Members} {o : Bool} {ms : List (String × Doc)}
    (hM : sortedKeys M = true) (hspec : ∀ k, mapGet k M = specLookup k elems)
    (hagree : keysAgree elems = true) (hmem : Shape.object c o ∈ elems) (hc : sortedKeys c = true)
    (hadm : admits (.object c o) (.obj ms) = true) : admits (.object M false) (.obj ms) = true := by
  rw [admits_object_obj, Bool.and_eq_true] at hadm ⊢
  obtain ⟨hms, habs⟩ := hadm
  rw [List.all_eq_true] at hms
  rw [absentOk_iff_mapGet hc] at habs
  constructor
  · rw [List.all_eq_true]
    intro ⟨k, y⟩ hky
    have := hms (k, y) hky
    simp only [admitsKey_eq_mapGet] at this ⊢
    cases hv : mapGet k c with
    | none => simp [hv] at this
    | some v =>
      simp only [hv] at this
      obtain ⟨sf, hsf⟩ := firstValue_isSome hmem hv
      obtain ⟨c', o', hm', hg'⟩ := firstValue_some hsf
      have : sf = v := keysAgree_spec hagree hm' hmem hg' hv
      subst this
      rw [hspec k]
      simp only [specLookup, hsf]
      split
      · exact this
      · exact admits_asOptional this
  · rw [absentOk_iff_mapGet hM]
    intro k s' hs'
    by_cases hmem' : hasMember k ms = true
    · exact Or.inl hmem'
    · right
      rw [hspec k] at hs'
      simp only [specLookup] at hs'
      cases hsf : firstValue k elems with
      | none => simp [hsf] at hs'
      | some sf =>
        simp only [hsf, Option.some.injEq] at hs'
        cases hv : mapGet k c with
        | none =>
          rw [all_hasKey_false_of_missing hmem hv] at hs'
          simp at hs'; subst hs'
          exact admits_asOptional_null sf
        | some v =>
          obtain ⟨c', o', hm', hg'⟩ := firstValue_some hsf
          have : sf = v := keysAgree_spec hagree hm' hmem hg' hv
          subst this
          have hnull : admits sf .null = true := by
            rcases habs k sf hv with h | h
            · exact absurd h hmem'
            · exact h
          split at hs' <;> subst hs'
          · exact hnull
          · exact admits_asOptional hnull

end ShapeVerif

namespace ShapeVerif
open Shape Std

theorem inferDocMembers_notOneOf : ∀ (ms : List (String × Doc)) (acc content : Members),
    inferDocMembers ms acc = .ok content → (∀ kv ∈ acc, kv.2.isOneOf = false) →
    ∀ kv ∈ content, kv.2.isOneOf = false := by
  intro ms
  induction ms with
  | nil => intro acc content h hacc; simp [inferDocMembers] at h; subst h; exact hacc
  | cons m ms ih =>
    obtain ⟨k, v⟩ := m
    intro acc content h hacc
    simp only [inferDocMembers] at h
    split at h
    · cases h
    · rename_i value hv
      split at h
      · cases h
      · rename_i content' hadd
        apply ih content' content h
        unfold addMember at hadd
        split at hadd
        · split at hadd
          · cases hadd
          · cases hadd; exact hacc
        · split at hadd
          · cases hadd
          · cases hadd; exact hacc
        · cases hadd
          intro kv hkv
          rcases mem_mapInsert hkv with rfl | hkv
          · exact inferDoc_not_oneOf hv
          · exact hacc kv hkv

theorem inferDoc_object_obj {x : Doc} {c : Members} {o : Bool} (h : inferDoc x = .ok (.object c o)) :
    ∃ ms, x = .obj ms ∧ inferDocMembers ms [] = .ok c := by
  cases x with
  | obj ms =>
    simp only [inferDoc] at h
    split at h
    · cases h
    · rename_i content hc; cases h; exact ⟨ms, rfl, hc⟩
  | arr xs =>
    simp only [inferDoc] at h
    split at h
    · cases h
    · unfold classifyArray at h
      repeat' split at h
      all_goals cases h
  | _ => simp [inferDoc] at h

theorem Pointwise.imp_mem {α β : Type} {R Q : α → β → Prop} : ∀ {as : List α} {bs : List β},
    Pointwise R as bs → (∀ a ∈ as, ∀ b, R a b → Q a b) → Pointwise Q as bs
  | [], [], _, _ => trivial
  | [], _ :: _, h, _ => by cases h
  | _ :: _, [], h, _ => by cases h
  | a :: as, b :: bs, h, f =>
    ⟨f a (by simp) b h.1, Pointwise.imp_mem h.2 (fun a' ha' => f a' (by simp [ha']))⟩

theorem admitsZip_of_pointwise : ∀ {xs : List Doc} {es : List Shape},
    Pointwise (fun x e => admits e x = true) xs es → admitsZip es xs = true
  | [], [], _ => rfl
  | [], _ :: _, h => by cases h
  | _ :: _, [], h => by cases h
  | x :: xs, e :: es, h => by
    simp only [admitsZip, Bool.and_eq_true]; exact ⟨h.1, admitsZip_of_pointwise h.2⟩

theorem infer_sound_aux (n : Nat) : ∀ (d : Doc) (s : Shape), sizeOf d ≤ n → conflictFree d = true →
    inferDoc d = .ok s → admits s d = true := by
  induction n with
  | zero => intro d s h; cases d <;> simp at h
  | succ n ih =>
    intro d s hn hcf h
    cases d with
    | null => simp [inferDoc] at h; subst h; rfl
    | bool b => simp [inferDoc] at h; subst h; rfl
    | num x => simp [inferDoc] at h; subst h; rfl
    | str x => simp [inferDoc] at h; subst h; rfl
    | arr xs =>
      simp only [inferDoc] at h
      split at h
      · cases h
      · rename_i es hes
        simp only [conflictFree, Bool.and_eq_true] at hcf
        rw [shapesOf_inferEach xs es hes] at hcf
        have pw := inferDocList_ok xs es hes
        have hsz : ∀ x ∈ xs, sizeOf x ≤ n := by
          intro x hx
          have := List.sizeOf_lt_of_mem hx
          simp at hn; omega
        have pwa : Pointwise (fun x e => admits e x = true) xs es :=
          pw.imp_mem (fun x hx e hxe => ih x e (hsz x hx) (conflictFreeList_mem hcf.1 x hx) hxe)
        unfold classifyArray at h
        split at h
        · -- all elements equal
          rename_i hcond
          split at h
          · rename_i first rest
            cases h
            rw [admits_array_arr, List.all_eq_true]
            intro x hx
            obtain ⟨e, he, hxe⟩ := pwa.mem_left x hx
            simp only [Bool.and_eq_true] at hcond
            have := (allEqual_iff_all_eq_head first rest).1 hcond.2
            rcases List.mem_cons.1 he with rfl | he
            · exact hxe
            · rw [this e he] at hxe; exact hxe
          · cases h
            have : xs = [] := by
              have := pw.length_eq; simpa using this
            subst this; rfl
        · split at h
          · -- array of objects
            rename_i hobj
            split at h
            · rename_i content o rest _
              cases h
              simp only [Bool.and_eq_true] at hobj
              have hall : (Shape.object content o :: rest).all isObject = true := hobj.2
              have hrest : rest.all isObject = true := by
                rw [List.all_cons, Bool.and_eq_true] at hall; exact hall.2
              have hwfes : wfList (Shape.object content o :: rest) = true := by
                rw [wfList_iff]
                intro e he
                obtain ⟨x, _, hxe⟩ := pw.mem_right e he
                exact infer_wf hxe
              have hno : noOneOfValues (Shape.object content o :: rest) := by
                intro e he c o' heq kv hkv
                subst heq
                obtain ⟨x, _, hxe⟩ := pw.mem_right _ he
                obtain ⟨ms, _, hms⟩ := inferDoc_object_obj hxe
                exact inferDocMembers_notOneOf ms [] c hms (by simp) kv hkv
              have hMok : MapOk (mergeObjectElements content rest) := by
                simp only [wfList, Shape.wf, Bool.and_eq_true] at hwfes
                exact MapOk_mergeObjectElements ⟨hwfes.1.1, hwfes.1.2⟩ hwfes.2
              rw [admits_array_arr, List.all_eq_true]
              intro x hx
              obtain ⟨e, he, hxe⟩ := pw.mem_left x hx
              rw [List.all_eq_true] at hall
              obtain ⟨c, oc, rfl⟩ := isObject_cases (hall e he)
              obtain ⟨ms, rfl, _⟩ := inferDoc_object_obj hxe
              have hadm := ih _ _ (hsz _ hx) (conflictFreeList_mem hcf.1 _ hx) hxe
              have hcs : sortedKeys c = true := by
                have := infer_wf hxe
                simp only [Shape.wf, Bool.and_eq_true] at this; exact this.1
              exact element_admitted hMok.1
                (fun k => mapGet_mergeObjectElements k content o rest hrest hno) hcf.2 he hcs hadm
            · cases h
          · split at h
            · cases h
              rw [admits_tuple_arr]
              exact admitsZip_of_pointwise pwa
            · rename_i h1 h2 h3
              cases h
              have hes : es = [] := by
                cases es with
                | nil => rfl
                | cons a l =>
                  cases l with
                  | nil => simp [allEqual] at h1
                  | cons b l => simp at h3
              subst hes
              have : xs = [] := by
                have := pw.length_eq; simpa using this
              subst this; rfl
    | obj ms =>
      simp only [inferDoc] at h
      split at h
      · cases h
      · rename_i content hc
        cases h
        simp only [conflictFree] at hcf
        have hsz : ∀ kv ∈ ms, sizeOf kv.2 ≤ n ∧ conflictFree kv.2 = true := by
          intro kv hkv
          have := List.sizeOf_lt_of_mem hkv
          refine ⟨?_, conflictFreeMembers_mem hcf kv hkv⟩
          obtain ⟨k, v⟩ := kv
          simp at this hn ⊢
          omega
        obtain ⟨_, s2, s3, _⟩ := inferDocMembers_spec
          (fun v => sizeOf v ≤ n ∧ conflictFree v = true)
          (fun v s hv hs => ih v s hv.1 hv.2 hs) ms [] content hsz hc
        have hwf : sortedKeys content = true := by
          have := infer_wf (d := .obj ms) (s := .object content false) (by simp [inferDoc, hc])
          simp only [Shape.wf, Bool.and_eq_true] at this; exact this.1
        rw [admits_object_obj, Bool.and_eq_true]
        constructor
        · rw [List.all_eq_true]
          intro kv hkv
          obtain ⟨s', hs', hadm⟩ := s2 kv hkv
          simp only [admitsKey_eq_mapGet, hs']; exact hadm
        · rw [absentOk_iff_mapGet hwf]
          intro k s hs
          rcases s3 k s hs with h' | h'
          · simp [mapGet] at h'
          · exact Or.inl h'

/-- **inference soundness**: outside the D3 class, a document is a member of the shape inferred from it -/
theorem infer_sound {d : Doc} {s : Shape} (hcf : conflictFree d = true) (h : inferDoc d = .ok s) :
    admits s d = true := infer_sound_aux (sizeOf d) d s (Nat.le_refl _) hcf h

end ShapeVerif
