/-
Sortedness (`BTreeSet`/`BTreeMap` invariants) is preserved by the list models of insert/extend/remove,
and what insertion does on sorted lists.
-/
import ShapeVerif.Lemmas.OrderLaws
import ShapeVerif.Lemmas.Containers
namespace ShapeVerif
open Shape Std

/-! ### sets -/

def headLt (x : Shape) : List Shape → Bool
  | [] => true
  | b :: _ => cmp x b == .lt

theorem sortedSet_cons (a : Shape) (l : List Shape) :
    sortedSet (a :: l) = (headLt a l && sortedSet l) := by
  cases l <;> simp [sortedSet, headLt]

theorem setInsert_sorted_aux (a : Shape) : ∀ (l : List Shape), sortedSet l = true →
    sortedSet (setInsert a l) = true ∧
    ∀ x, cmp x a = .lt → headLt x l = true → headLt x (setInsert a l) = true := by
  intro l
  induction l with
  | nil => intro _; simp [setInsert, sortedSet, headLt]
  | cons b l ih =>
    intro hs
    rw [sortedSet_cons] at hs
    simp only [Bool.and_eq_true] at hs
    unfold setInsert
    cases hc : cmp a b with
    | lt =>
      refine ⟨?_, ?_⟩
      · rw [sortedSet_cons, sortedSet_cons, hs.1, hs.2]; simp [headLt, hc]
      · intro x hx _; simp [headLt, hx]
    | eq =>
      refine ⟨?_, ?_⟩
      · rw [sortedSet_cons]; simp [hs.1, hs.2]
      · intro x _ hh; exact hh
    | gt =>
      obtain ⟨ih1, ih2⟩ := ih hs.2
      refine ⟨?_, ?_⟩
      · rw [sortedSet_cons]
        simp only [Bool.and_eq_true]
        exact ⟨ih2 b ((cmp_gt_iff_lt a b).1 hc) hs.1, ih1⟩
      · intro x _ hh; simpa [headLt] using hh

theorem sortedSet_setInsert {a : Shape} {l : List Shape} (h : sortedSet l = true) :
    sortedSet (setInsert a l) = true := (setInsert_sorted_aux a l h).1

theorem sortedSet_setExtend {s add : List Shape} (h : sortedSet s = true) :
    sortedSet (setExtend s add) = true := by
  unfold setExtend
  induction add generalizing s with
  | nil => simpa
  | cons a add ih => simp only [List.foldl_cons]; exact ih (sortedSet_setInsert h)

theorem sortedSet_setOfList (l : List Shape) : sortedSet (setOfList l) = true :=
  sortedSet_setExtend (s := []) rfl

theorem sortedSet_tail {a : Shape} {l : List Shape} (h : sortedSet (a :: l) = true) :
    sortedSet l = true := by
  rw [sortedSet_cons] at h; simp at h; exact h.2

theorem sortedSet_head_lt {a : Shape} {l : List Shape} (h : sortedSet (a :: l) = true) :
    ∀ x ∈ l, cmp a x = .lt := by
  induction l generalizing a with
  | nil => simp
  | cons b l ih =>
    rw [sortedSet_cons] at h
    simp [headLt] at h
    intro x hx
    rcases List.mem_cons.1 hx with rfl | hx
    · exact h.1
    · exact cmp_lt_trans h.1 (ih h.2 x hx)

/-- inserting an element that is already present changes nothing -/
theorem setInsert_of_mem {a : Shape} {l : List Shape} (hs : sortedSet l = true) (hm : a ∈ l) :
    setInsert a l = l := by
  induction l with
  | nil => cases hm
  | cons b l ih =>
    unfold setInsert
    rcases List.mem_cons.1 hm with rfl | hm
    · simp [cmp_refl]
    · have hlt := sortedSet_head_lt hs a hm
      have : cmp a b = .gt := (cmp_gt_iff_lt a b).2 hlt
      simp [this, ih (sortedSet_tail hs) hm]

theorem setExtend_of_subset {s add : List Shape} (hs : sortedSet s = true) (h : ∀ x ∈ add, x ∈ s) :
    setExtend s add = s := by
  unfold setExtend
  induction add with
  | nil => rfl
  | cons a add ih =>
    simp only [List.foldl_cons]
    rw [setInsert_of_mem hs (h a (by simp))]
    exact ih (fun x hx => h x (by simp [hx]))

theorem wfList_iff {l : List Shape} : wfList l = true ↔ ∀ s ∈ l, s.wf = true := by
  induction l with
  | nil => simp [wfList]
  | cons a l ih => simp [wfList, ih]

theorem wfMembers_iff {l : Members} : wfMembers l = true ↔ ∀ kv ∈ l, kv.2.wf = true := by
  induction l with
  | nil => simp [wfMembers]
  | cons a l ih => obtain ⟨k, v⟩ := a; simp [wfMembers, ih]

theorem wfList_setInsert {a : Shape} {l : List Shape} (ha : a.wf = true) (h : wfList l = true) :
    wfList (setInsert a l) = true := by
  rw [wfList_iff] at *
  intro s hs
  rcases mem_setInsert.1 hs with rfl | hs
  · exact ha
  · exact h s hs

theorem wfList_setExtend {s add : List Shape} (hs : wfList s = true) (ha : wfList add = true) :
    wfList (setExtend s add) = true := by
  rw [wfList_iff] at *
  intro x hx
  rcases mem_setExtend.1 hx with h | h
  · exact hs x h
  · exact ha x h

/-! ### maps -/

def headKeyLt (k : String) : Members → Bool
  | [] => true
  | (k', _) :: _ => compare k k' == .lt

theorem sortedKeys_cons (k : String) (v : Shape) (l : Members) :
    sortedKeys ((k, v) :: l) = (headKeyLt k l && sortedKeys l) := by
  cases l with
  | nil => simp [sortedKeys, headKeyLt]
  | cons kv l => obtain ⟨k', v'⟩ := kv; simp [sortedKeys, headKeyLt]

theorem compare_string_gt_iff_lt (a b : String) : compare a b = .gt ↔ compare b a = .lt := by
  rw [compare_string_swap a b]; cases compare b a <;> simp [Ordering.swap]

theorem mapInsert_sorted_aux (k : String) (v : Shape) : ∀ (l : Members), sortedKeys l = true →
    sortedKeys (mapInsert k v l) = true ∧
    ∀ x, compare x k = .lt → headKeyLt x l = true → headKeyLt x (mapInsert k v l) = true := by
  intro l
  induction l with
  | nil => intro _; simp [mapInsert, sortedKeys, headKeyLt]
  | cons b l ih =>
    obtain ⟨k', v'⟩ := b
    intro hs
    rw [sortedKeys_cons] at hs
    simp only [Bool.and_eq_true] at hs
    unfold mapInsert
    cases hc : compare k k' with
    | lt =>
      refine ⟨?_, ?_⟩
      · rw [sortedKeys_cons, sortedKeys_cons, hs.1, hs.2]; simp [headKeyLt, hc]
      · intro x hx _; simp [headKeyLt, hx]
    | eq =>
      refine ⟨?_, ?_⟩
      · rw [sortedKeys_cons]; simp [hs.1, hs.2]
      · intro x _ hh; exact hh
    | gt =>
      obtain ⟨ih1, ih2⟩ := ih hs.2
      refine ⟨?_, ?_⟩
      · rw [sortedKeys_cons]
        simp only [Bool.and_eq_true]
        exact ⟨ih2 k' ((compare_string_gt_iff_lt k k').1 hc) hs.1, ih1⟩
      · intro x _ hh; simpa [headKeyLt] using hh

theorem sortedKeys_mapInsert {k : String} {v : Shape} {l : Members} (h : sortedKeys l = true) :
    sortedKeys (mapInsert k v l) = true := (mapInsert_sorted_aux k v l h).1

theorem sortedKeys_mapOfList (l : Members) : sortedKeys (mapOfList l) = true := by
  unfold mapOfList
  suffices ∀ acc, sortedKeys acc = true →
      sortedKeys (l.foldl (fun acc kv => mapInsert kv.1 kv.2 acc) acc) = true from this [] rfl
  induction l with
  | nil => intro acc h; simpa
  | cons a l ih => intro acc h; simp only [List.foldl_cons]; exact ih _ (sortedKeys_mapInsert h)

theorem mapGet_mapInsert (k k' : String) (v : Shape) (m : Members) :
    mapGet k (mapInsert k' v m) = if k == k' then some v else mapGet k m := by
  induction m with
  | nil => simp [mapInsert, mapGet]
  | cons b m ih =>
    obtain ⟨k0, v0⟩ := b
    unfold mapInsert
    cases hc : compare k' k0 with
    | lt => simp [mapGet]
    | eq =>
      have : k' = k0 := compare_eq_iff_eq.1 hc
      subst this
      by_cases h : k = k' <;> simp [mapGet, h]
    | gt =>
      have hne : k' ≠ k0 := by
        intro e; subst e; simp [ReflCmp.compare_self] at hc
      simp only [mapGet, ih]
      by_cases h0 : k = k0
      · subst h0
        have : (k == k') = false := by simp [Ne.symm hne]
        simp [this]
      · simp [h0]

theorem mem_mapInsert {kv : String × Shape} {k : String} {v : Shape} {m : Members} :
    kv ∈ mapInsert k v m → kv = (k, v) ∨ kv ∈ m := by
  induction m with
  | nil => simp [mapInsert]
  | cons b m ih =>
    obtain ⟨k0, v0⟩ := b
    unfold mapInsert
    cases hc : compare k k0 with
    | lt => simp
    | eq =>
      have : k = k0 := compare_eq_iff_eq.1 hc
      subst this
      simp only [List.mem_cons]
      rintro (h | h)
      · exact Or.inl h
      · exact Or.inr (Or.inr h)
    | gt =>
      simp only [List.mem_cons]
      rintro (h | h)
      · exact Or.inr (Or.inl h)
      · rcases ih h with h | h
        · exact Or.inl h
        · exact Or.inr (Or.inr h)

theorem mem_mapOfList {kv : String × Shape} {l : Members} : kv ∈ mapOfList l → kv ∈ l := by
  unfold mapOfList
  suffices ∀ acc, kv ∈ l.foldl (fun acc kv => mapInsert kv.1 kv.2 acc) acc → kv ∈ acc ∨ kv ∈ l by
    intro h; simpa using this [] h
  induction l with
  | nil => intro acc h; exact Or.inl h
  | cons a l ih =>
    intro acc h
    simp only [List.foldl_cons] at h
    rcases ih _ h with h | h
    · rcases mem_mapInsert h with h | h
      · right; simp [h]
      · exact Or.inl h
    · right; simp [h]

/-- the last binding of `k` in a list -/
def lastGet (k : String) : Members → Option Shape
  | [] => none
  | (k', v) :: l => match lastGet k l with
    | some x => some x
    | none => if k == k' then some v else none

theorem mapGet_foldl_insert (k : String) (l acc : Members) :
    mapGet k (l.foldl (fun acc kv => mapInsert kv.1 kv.2 acc) acc) =
      match lastGet k l with
      | some x => some x
      | none => mapGet k acc := by
  induction l generalizing acc with
  | nil => simp [lastGet]
  | cons a l ih =>
    obtain ⟨k', v⟩ := a
    simp only [List.foldl_cons, ih, lastGet]
    cases lastGet k l with
    | some x => rfl
    | none => simp only [mapGet_mapInsert]; split <;> rfl

theorem mapGet_mapOfList (k : String) (l : Members) : mapGet k (mapOfList l) = lastGet k l := by
  unfold mapOfList
  rw [mapGet_foldl_insert]
  cases lastGet k l <;> simp [mapGet]

theorem mapGet_eq_some_of_mem {m : Members} {k : String} {v : Shape} (hs : sortedKeys m = true)
    (h : (k, v) ∈ m) : mapGet k m = some v := by
  induction m with
  | nil => cases h
  | cons b m ih =>
    obtain ⟨k0, v0⟩ := b
    rcases List.mem_cons.1 h with h | h
    · cases h; simp [mapGet]
    · have hne : k ≠ k0 := sortedKeys_head_ne hs (k, v) h
      simp [mapGet, hne, ih (sortedKeys_tail hs) h]

theorem mem_of_mapGet {m : Members} {k : String} {v : Shape} (h : mapGet k m = some v) : (k, v) ∈ m := by
  induction m with
  | nil => simp [mapGet] at h
  | cons b m ih =>
    obtain ⟨k0, v0⟩ := b
    simp only [mapGet] at h
    split at h
    · rename_i heq
      have : k = k0 := by simpa using heq
      subst this; cases h; simp
    · exact List.mem_cons_of_mem _ (ih h)

theorem mapGet_cons (k k' : String) (v : Shape) (l : Members) :
    mapGet k ((k', v) :: l) = if k == k' then some v else mapGet k l := rfl

theorem mapGet_none_iff {m : Members} {k : String} : mapGet k m = none ↔ ∀ v, (k, v) ∉ m := by
  induction m with
  | nil => simp [mapGet]
  | cons b m ih =>
    obtain ⟨k0, v0⟩ := b
    rw [mapGet_cons]
    by_cases h : k = k0
    · subst h
      simp only [beq_self_eq_true, if_true]
      constructor
      · intro h; cases h
      · intro h; exact absurd (List.mem_cons_self) (h v0)
    · have : (k == k0) = false := by simp [h]
      simp only [this, Bool.false_eq_true, if_false, ih]
      constructor
      · intro hh v hv
        rcases List.mem_cons.1 hv with e | e
        · cases e; exact h rfl
        · exact hh v e
      · intro hh v hv; exact hh v (List.mem_cons_of_mem _ hv)

theorem mem_mapRemove {kv : String × Shape} {k : String} {m : Members} :
    kv ∈ mapRemove k m → kv ∈ m := by
  induction m with
  | nil => simp [mapRemove]
  | cons b m ih =>
    obtain ⟨k0, v0⟩ := b
    simp only [mapRemove]
    split
    · intro h; exact List.mem_cons_of_mem _ h
    · intro h
      rcases List.mem_cons.1 h with h | h
      · simp [h]
      · exact List.mem_cons_of_mem _ (ih h)

theorem sortedKeys_mapRemove {k : String} {m : Members} (h : sortedKeys m = true) :
    sortedKeys (mapRemove k m) = true := by
  induction m with
  | nil => simp [mapRemove, sortedKeys]
  | cons b m ih =>
    obtain ⟨k0, v0⟩ := b
    simp only [mapRemove]
    split
    · exact sortedKeys_tail h
    · rw [sortedKeys_cons] at h ⊢
      simp only [Bool.and_eq_true] at h ⊢
      refine ⟨?_, ih h.2⟩
      cases m with
      | nil => simp [mapRemove, headKeyLt]
      | cons c m =>
        obtain ⟨k1, v1⟩ := c
        simp only [mapRemove]
        split
        · have := sortedKeys_head_lt (k := k0) (v := v0) (l := (k1, v1) :: m)
            (by rw [sortedKeys_cons]; simp [h.1, h.2])
          cases m with
          | nil => simp [headKeyLt]
          | cons d m =>
            obtain ⟨k2, v2⟩ := d
            simp [headKeyLt, this (k2, v2) (by simp)]
        · simpa [headKeyLt] using h.1

/-- after removing `k` from a sorted map, `k` is gone and everything else is untouched -/
theorem mapGet_mapRemove {k k' : String} {m : Members} (hs : sortedKeys m = true) :
    mapGet k (mapRemove k' m) = if k == k' then none else mapGet k m := by
  induction m with
  | nil => simp [mapRemove, mapGet]
  | cons b m ih =>
    obtain ⟨k0, v0⟩ := b
    simp only [mapRemove]
    by_cases h0 : k' = k0
    · subst h0
      simp only [beq_self_eq_true, if_true]
      by_cases hk : k = k'
      · subst hk
        simp only [beq_self_eq_true, if_true]
        rw [mapGet_none_iff]
        intro v hv
        exact sortedKeys_head_ne hs (k, v) hv rfl
      · have : (k == k') = false := by simp [hk]
        rw [mapGet_cons]; simp [this]
    · have h1 : (k' == k0) = false := by simp [h0]
      simp only [h1, Bool.false_eq_true, if_false]
      rw [mapGet_cons, mapGet_cons, ih (sortedKeys_tail hs)]
      by_cases hk0 : k = k0
      · subst hk0
        have : (k == k') = false := by simp [Ne.symm h0]
        simp [this]
      · have : (k == k0) = false := by simp [hk0]
        simp [this]

end ShapeVerif
