/-
What the `(Object, Object)` arm of `merger` computes, key by key (`object_struct` of C08):
common keys carry the merge of the two values, one-sided keys the optional form.
-/
import ShapeVerif.Lemmas.Sorted
import ShapeVerif.Model.Merge
namespace ShapeVerif
open Shape Std

theorem lastGet_append (k : String) (l1 l2 : Members) :
    lastGet k (l1 ++ l2) = match lastGet k l2 with
      | some x => some x
      | none => lastGet k l1 := by
  induction l1 with
  | nil => simp [lastGet]; cases lastGet k l2 <;> rfl
  | cons a l1 ih =>
    obtain ⟨k', v⟩ := a
    simp only [List.cons_append, lastGet, ih]
    cases lastGet k l2 <;> rfl

theorem lastGet_eq_mapGet {k : String} {l : Members} (hs : sortedKeys l = true) :
    lastGet k l = mapGet k l := by
  induction l with
  | nil => rfl
  | cons a l ih =>
    obtain ⟨k', v⟩ := a
    simp only [lastGet, mapGet_cons, ih (sortedKeys_tail hs)]
    by_cases h : k = k'
    · subst h
      have : mapGet k l = none := by
        rw [mapGet_none_iff]; intro v' hv'; exact sortedKeys_head_ne hs (k, v') hv' rfl
      simp [this]
    · have : (k == k') = false := by simp [h]
      simp only [this]
      cases mapGet k l <;> simp

theorem lastGet_map_asOptional (k : String) (l : Members) :
    lastGet k (l.map fun kv => (kv.1, kv.2.asOptional)) = (lastGet k l).map asOptional := by
  induction l with
  | nil => rfl
  | cons a l ih =>
    obtain ⟨k', v⟩ := a
    simp only [List.map_cons, lastGet, ih]
    cases lastGet k l with
    | some x => rfl
    | none => by_cases h : (k == k') = true <;> simp [h]

/-- keys of the first component of `mergeMembers` are the keys of the left map, in order -/
theorem mergeMembers_keys (c other : Members) : (mergeMembers c other).1.map (·.1) = c.map (·.1) := by
  induction c generalizing other with
  | nil => simp [mergeMembers]
  | cons a c ih =>
    obtain ⟨k, v⟩ := a
    simp only [mergeMembers]
    split <;> simp [ih]

theorem sortedKeys_of_keys_eq {l1 l2 : Members} (h : l1.map (·.1) = l2.map (·.1))
    (hs : sortedKeys l2 = true) : sortedKeys l1 = true := by
  induction l1 generalizing l2 with
  | nil => rfl
  | cons a l1 ih =>
    cases l2 with
    | nil => simp at h
    | cons b l2 =>
      obtain ⟨k, v⟩ := a; obtain ⟨k', v'⟩ := b
      simp at h
      obtain ⟨hk, ht⟩ := h
      subst hk
      rw [sortedKeys_cons] at hs ⊢
      simp only [Bool.and_eq_true] at hs ⊢
      refine ⟨?_, ih ht hs.2⟩
      cases l1 with
      | nil => rfl
      | cons c l1 =>
        cases l2 with
        | nil => simp at ht
        | cons d l2 =>
          obtain ⟨k1, v1⟩ := c; obtain ⟨k2, v2⟩ := d
          simp at ht
          simpa [headKeyLt, ht.1] using hs.1

theorem mergeMembers_spec (c : Members) : ∀ (other : Members), sortedKeys c = true →
    sortedKeys other = true → ∀ k,
    mapGet k (mergeMembers c other).1 =
      (match mapGet k c with
       | some v => some (match mapGet k other with
          | some ov => merger v ov
          | none => v.asOptional)
       | none => none) ∧
    mapGet k (mergeMembers c other).2 = (if (mapGet k c).isSome then none else mapGet k other) ∧
    sortedKeys (mergeMembers c other).2 = true := by
  induction c with
  | nil => intro other _ ho k; simp [mergeMembers, mapGet, ho]
  | cons a c ih =>
    obtain ⟨k0, v0⟩ := a
    intro other hc ho k
    have hc' := sortedKeys_tail hc
    simp only [mergeMembers]
    cases hget : mapGet k0 other with
    | some ov =>
      simp only
      have hrem := sortedKeys_mapRemove (k := k0) ho
      obtain ⟨i1, i2, i3⟩ := ih (mapRemove k0 other) hc' hrem k
      refine ⟨?_, ?_, i3⟩
      · rw [mapGet_cons, mapGet_cons]
        by_cases hk : k = k0
        · subst hk; simp [hget]
        · have hb : (k == k0) = false := by simp [hk]
          simp only [hb, Bool.false_eq_true, if_false, i1]
          rw [mapGet_mapRemove ho]; simp [hb]
      · rw [i2, mapGet_mapRemove ho, mapGet_cons]
        by_cases hk : k = k0
        · subst hk; simp
        · have hb : (k == k0) = false := by simp [hk]
          simp [hb]
    | none =>
      simp only
      obtain ⟨i1, i2, i3⟩ := ih other hc' ho k
      refine ⟨?_, ?_, i3⟩
      · rw [mapGet_cons, mapGet_cons]
        by_cases hk : k = k0
        · subst hk; simp [hget]
        · have hb : (k == k0) = false := by simp [hk]
          simp only [hb, Bool.false_eq_true, if_false, i1]
      · rw [i2, mapGet_cons]
        by_cases hk : k = k0
        · subst hk; simp [hget]
        · have hb : (k == k0) = false := by simp [hk]
          simp [hb]

theorem mapContainsKey_eq_isSome (k : String) (c : Members) :
    mapContainsKey k c = (mapGet k c).isSome := by
  induction c with
  | nil => rfl
  | cons a c ih =>
    obtain ⟨k', v⟩ := a
    simp only [mapContainsKey, List.any_cons, mapGet_cons] at ih ⊢
    by_cases h : (k == k') = true
    · simp [h]
    · simp [h, ih]

/-- the content map of `merger (Object c _) (Object oc _)` -/
def mergedContent (c oc : Members) : Members :=
  let r := mergeMembers c oc
  mapOfList (r.1 ++ r.2.map (fun kv => (kv.1, kv.2.asOptional)))

theorem merger_object_object (c oc : Members) (o p : Bool) :
    merger (.object c o) (.object oc p) = .object (mergedContent c oc) (o || p) := by
  simp [merger, mergedContent]

/-- **object_struct**: the merged map, key by key -/
theorem mapGet_mergedContent {c oc : Members} (hc : sortedKeys c = true) (ho : sortedKeys oc = true)
    (k : String) :
    mapGet k (mergedContent c oc) =
      match mapGet k c, mapGet k oc with
      | some v, some ov => some (merger v ov)
      | some v, none => some v.asOptional
      | none, some ov => some ov.asOptional
      | none, none => none := by
  unfold mergedContent
  obtain ⟨s1, s2, s3⟩ := mergeMembers_spec c oc hc ho k
  have hs1 : sortedKeys (mergeMembers c oc).1 = true :=
    sortedKeys_of_keys_eq (mergeMembers_keys c oc) hc
  simp only [mapGet_mapOfList, lastGet_append, lastGet_map_asOptional,
    lastGet_eq_mapGet s3, lastGet_eq_mapGet hs1, s1, s2]
  cases mapGet k c <;> cases mapGet k oc <;> simp

theorem sortedKeys_mergedContent (c oc : Members) : sortedKeys (mergedContent c oc) = true :=
  sortedKeys_mapOfList _

end ShapeVerif
