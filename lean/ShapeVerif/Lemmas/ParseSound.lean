/-
Soundness of the recovering parser in clean mode: a run that reports nothing has consumed a phrase of
the token grammar and built a node that `parse_cst` evaluates to `inferDoc` of the phrase's document.
-/
import ShapeVerif.Lemmas.ParseClean
import ShapeVerif.Lemmas.CstEval
namespace ShapeVerif
open Shape

/-! ### diagnostics only grow -/

def Grows (d0 : List Diag) (s : PState) : Prop := ∃ e, s.diags = e ++ d0

theorem grows_stable (d0 : List Diag) : Stable (Grows d0) where
  error := by
    intro s ⟨e, he⟩
    unfold PState.error
    split
    · exact ⟨e, he⟩
    · exact ⟨⟨.syntax, s.span.1, s.span.2⟩ :: e, by simp [he]⟩
  advance := by
    intro s b ⟨e, he⟩
    unfold PState.advance
    split
    · exact ⟨e, he⟩
    · exact ⟨e, he⟩
  cooldown := by intro s ⟨e, he⟩; exact ⟨e, he⟩

theorem grows_refl (s : PState) : Grows s.diags s := ⟨[], rfl⟩

/-- if a later state has the diagnostics of the start, so has every state in between -/
theorem same_of_grows {d0 : List Diag} {s1 s2 : PState} (h1 : Grows d0 s1) (h2 : Grows s1.diags s2)
    (h : s2.diags = d0) : s1.diags = d0 := by
  obtain ⟨e1, h1⟩ := h1
  obtain ⟨e2, h2⟩ := h2
  rw [h2, h1] at h
  have : (e2 ++ e1 ++ d0).length = d0.length := by rw [List.append_assoc]; exact congrArg List.length h
  simp at this
  have he1 : e1 = [] := List.eq_nil_of_length_eq_zero (by omega)
  rw [h1, he1]; rfl

/-! ### `Cst::close` -/

theorem takeWhile_append_stop {α : Type} (p : α → Bool) : ∀ (l : List α) (x : α) (r : List α),
    (∀ a ∈ l, p a = true) → p x = false → (l ++ x :: r).takeWhile p = l ∧ (l ++ x :: r).dropWhile p = x :: r
  | [], x, r, _, hx => by simp [List.takeWhile, List.dropWhile, hx]
  | a :: l, x, r, hl, hx => by
    have ha := hl a (by simp)
    have ih := takeWhile_append_stop p l x r (fun b hb => hl b (by simp [hb])) hx
    simp [List.takeWhile, List.dropWhile, ha, ih.1, ih.2]

theorem closeRule_spec (r : Rule) (pre : List Item) (n : Node) (sk : List Item) (hsk : SkipItems sk) :
    closeRule r (pre ++ ⟨n, false⟩ :: sk) =
      (⟨.rule r ((pre ++ [(⟨n, false⟩ : Item)]).map (fun i : Item => i.node)), false⟩ : Item) :: sk := by
  unfold closeRule
  have hrev : (pre ++ ⟨n, false⟩ :: sk).reverse = sk.reverse ++ ⟨n, false⟩ :: pre.reverse := by simp
  have := takeWhile_append_stop (fun i : Item => i.skip) sk.reverse ⟨n, false⟩ pre.reverse
    (fun a ha => (hsk a (by simpa using ha)).1) rfl
  simp only [hrev, this.1, this.2, List.reverse_reverse, List.reverse_cons]

theorem skipItems_noErr {sk : List Item} (h : SkipItems sk) : NoErrNodes (sk.map (·.node)) := by
  intro n hn
  obtain ⟨i, hi, rfl⟩ := List.mem_map.1 hn
  obtain ⟨_, k, a, b, e, hk⟩ := h i hi
  rw [e]
  rcases hk with rfl | rfl <;> rfl

theorem skipItems_punct {src : List Char} {sk : List Item} (h : SkipItems sk) : ElemsRep src (sk.map (·.node)) [] := by
  induction sk with
  | nil => exact .nil
  | cons i sk ih =>
    obtain ⟨_, k, a, b, e, hk⟩ := h i (by simp)
    simp only [List.map_cons, e]
    refine .punct ?_ (ih (fun j hj => h j (by simp [hj])))
    rcases hk with rfl | rfl <;> rfl

theorem skipItems_other {src : List Char} {sk : List Item} (h : SkipItems sk) : MembersRep src (sk.map (·.node)) [] := by
  induction sk with
  | nil => exact .nil
  | cons i sk ih =>
    obtain ⟨_, k, a, b, e, hk⟩ := h i (by simp)
    simp only [List.map_cons, e]
    exact .other rfl (ih (fun j hj => h j (by simp [hj])))

theorem skipItems_notValue {sk : List Item} (h : SkipItems sk) : ∀ n ∈ sk.map (·.node), isValueRule n = false := by
  intro n hn
  obtain ⟨i, hi, rfl⟩ := List.mem_map.1 hn
  obtain ⟨_, k, a, b, e, _⟩ := h i hi
  rw [e]; rfl

theorem yield_skipItems {sk : List Item} (h : SkipItems sk) : sig (yieldItems sk) = [] := by
  induction sk with
  | nil => rfl
  | cons i sk ih =>
    obtain ⟨_, k, a, b, e, hk⟩ := h i (by simp)
    simp only [yieldItems_cons, e, leaves]
    have : sig ([⟨k, a, b⟩] ++ yieldItems sk) = sig (yieldItems sk) := by
      rcases hk with rfl | rfl <;> simp [sig, isSkipTok]
    rw [this]
    exact ih (fun j hj => h j (by simp [hj]))

/-! ### what a clean run of each function delivers -/

/-- the rest of a member list / element list after the first item -/
inductive TMore (key : Token → String) : List Token → List (String × Doc) → Prop
  | nil : TMore key [] []
  | cons {m k c : Token} {ts rest : List Token} {v : Doc} {ms : List (String × Doc)} :
      m.kind = .comma → k.kind = .string → c.kind = .colon → TValue key ts v → TMore key rest ms →
      TMore key (m :: k :: c :: ts ++ rest) ((key k, v) :: ms)

inductive TMoreElems (key : Token → String) : List Token → List Doc → Prop
  | nil : TMoreElems key [] []
  | cons {m : Token} {ts rest : List Token} {x : Doc} {xs : List Doc} :
      m.kind = .comma → TValue key ts x → TMoreElems key rest xs → TMoreElems key (m :: ts ++ rest) (x :: xs)

theorem members_of_more {key : Token → String} {k c : Token} {ts rest : List Token} {v : Doc}
    {ms : List (String × Doc)} (hk : k.kind = .string) (hc : c.kind = .colon) (hv : TValue key ts v)
    (hm : TMore key rest ms) : TMembers key (k :: c :: ts ++ rest) ((key k, v) :: ms) := by
  induction hm generalizing k c ts v with
  | nil => simpa using TMembers.one hk hc hv
  | cons hm' hk' hc' hv' _ ih => exact TMembers.cons hk hc hm' hv (ih hk' hc' hv')

theorem elems_of_more {key : Token → String} {ts rest : List Token} {x : Doc} {xs : List Doc}
    (hv : TValue key ts x) (hm : TMoreElems key rest xs) : TElems key (ts ++ rest) (x :: xs) := by
  induction hm generalizing ts x with
  | nil => simpa using TElems.one hv
  | cons hm' hv' _ ih => exact TElems.cons hm' hv (ih hv')

section
variable (src : List Char) (key : Token → String)

def KeyOk (ts : List Token) : Prop :=
  ∀ t ∈ ts, t.kind = .string →
    ∃ txt, sliceBytes src t.start t.stop = some txt ∧ 2 ≤ txt.length ∧ key t = memberName txt

structure TokStep (s : PState) (r : PState × List Item) (k : Tok) : Prop where
  clean : CleanSt r.1
  same : r.1.diags = s.diags
  tok : ∃ t ts sk, s.toks = t :: ts ∧ t.kind = k ∧ r.2 = ⟨.tok t.kind t.start t.stop, false⟩ :: sk ∧
    SkipItems sk ∧ sig s.toks = t :: sig r.1.toks
  less : r.1.toks.length < s.toks.length

structure GV (s : PState) (r : PState × List Item) : Prop where
  clean : CleanSt r.1
  node : ∃ n sk d ph, r.2 = ⟨n, false⟩ :: sk ∧ SkipItems sk ∧ isValueRule n = true ∧ Evals src n d ∧
    sig s.toks = ph ++ sig r.1.toks ∧ TValue key ph d
  less : r.1.toks.length < s.toks.length

structure GM (s : PState) (r : PState × List Item) : Prop where
  clean : CleanSt r.1
  node : ∃ cs sk v ph kt ct, r.2 = ⟨.rule .member cs, false⟩ :: sk ∧ SkipItems sk ∧
    MemberRep src cs (key kt) v ∧ kt.kind = .string ∧ ct.kind = .colon ∧
    sig s.toks = kt :: ct :: ph ++ sig r.1.toks ∧ TValue key ph v
  less : r.1.toks.length < s.toks.length

structure GOL (s : PState) (r : PState × List Item) : Prop where
  clean : CleanSt r.1
  node : ∃ ms ph, NoErrNodes (r.2.map (·.node)) ∧ MembersRep src (r.2.map (·.node)) ms ∧ TMore key ph ms ∧
    sig s.toks = ph ++ sig r.1.toks
  le : r.1.toks.length ≤ s.toks.length

structure GAL (s : PState) (r : PState × List Item) : Prop where
  clean : CleanSt r.1
  node : ∃ xs ph, NoErrNodes (r.2.map (·.node)) ∧ ElemsRep src (r.2.map (·.node)) xs ∧ TMoreElems key ph xs ∧
    sig s.toks = ph ++ sig r.1.toks
  le : r.1.toks.length ≤ s.toks.length
end

theorem valueRule_facts {n : Node} (h : isValueRule n = true) :
    isErrorNode n = false ∧ isArrayPunct n = false ∧ isMemberNode n = false := by
  cases n with
  | tok k a b => simp [isValueRule] at h
  | rule r cs => cases r <;> simp [isValueRule] at h <;> exact ⟨rfl, rfl, rfl⟩

theorem expect_step {s : PState} (h : CleanSt s) (k : Tok) (hk0 : k ≠ .eof)
    (hd : (s.expect k).1.diags = s.diags) : TokStep s (s.expect k) k := by
  obtain ⟨t, ts, ht, hk, he⟩ := expect_clean h k hk0 hd
  obtain ⟨a1, a2, ⟨sk, a3, a4⟩, a5, a6⟩ := advance_clean h ht
  rw [he]
  exact ⟨a1, a2, ⟨t, ts, sk, ht, hk, a3, a4, a5⟩, a6⟩

theorem mem_toks_of_yields {f : PState → PState × List Item} (hy : Yields f) (s : PState) :
    ∀ t ∈ (f s).1.toks, t ∈ s.toks := by
  intro t ht
  rw [← hy s]
  exact List.mem_append_right _ ht

theorem keyOk_of_subset {src : List Char} {key : Token → String} {a b : List Token} (h : KeyOk src key a)
    (hs : ∀ t ∈ b, t ∈ a) : KeyOk src key b := fun t ht => h t (hs t ht)

/-! ### literals -/

theorem literal_of_tokstep {src : List Char} {key : Token → String} {s : PState} {r : PState × List Item}
    {k : Tok} (h : TokStep s r k)
    (hk : (k = .null_ ∧ ∃ d, d = Doc.null) ∨ k = .number ∨ k = .string) :
    GV src key s (r.1, closeRule .literal r.2) := by
  obtain ⟨t, ts, sk, ht, htk, hitems, hsk, hsig⟩ := h.tok
  refine ⟨h.clean, ?_, h.less⟩
  have hc := closeRule_spec .literal [] (.tok t.kind t.start t.stop) sk hsk
  simp only [List.nil_append, List.map_cons, List.map_nil] at hc
  rw [hitems, hc]
  rcases hk with ⟨rfl, _⟩ | rfl | rfl
  · exact ⟨_, sk, .null, [t], rfl, hsk, rfl, by rw [htk]; exact evals_literal_tok (.inl ⟨rfl, rfl⟩),
      by simpa using hsig, .null htk⟩
  · exact ⟨_, sk, .num "", [t], rfl, hsk, rfl, by rw [htk]; exact evals_literal_tok (.inr (.inl ⟨rfl, _, rfl⟩)),
      by simpa using hsig, .num htk⟩
  · exact ⟨_, sk, .str "", [t], rfl, hsk, rfl, by rw [htk]; exact evals_literal_tok (.inr (.inr ⟨rfl, _, rfl⟩)),
      by simpa using hsig, .str htk⟩

theorem ruleBoolean_sound {src : List Char} {key : Token → String} {s : PState} (h : CleanSt s)
    (hd : (ruleBoolean s).1.diags = s.diags) :
    CleanSt (ruleBoolean s).1 ∧ (ruleBoolean s).1.toks.length < s.toks.length ∧
    ∃ cs sk t, (ruleBoolean s).2 = ⟨.rule .boolean cs, false⟩ :: sk ∧ SkipItems sk ∧
      (t.kind = .true_ ∨ t.kind = .false_) ∧ sig s.toks = t :: sig (ruleBoolean s).1.toks := by
  unfold ruleBoolean at hd ⊢
  simp only at hd ⊢
  split at hd
  · rename_i hc
    simp only [hc, if_true]
    have st := expect_step h .false_ (by decide) hd
    obtain ⟨t, ts, sk, ht, htk, hitems, hsk, hsig⟩ := st.tok
    have hcr := closeRule_spec .boolean [] (.tok t.kind t.start t.stop) sk hsk
    simp only [List.nil_append] at hcr
    exact ⟨st.clean, st.less, _, sk, t, by rw [hitems, hcr], hsk, .inr htk, hsig⟩
  · rename_i hc
    simp only [hc, Bool.false_eq_true, if_false] at hd ⊢
    split at hd
    · rename_i hc2
      simp only [hc2, if_true]
      have st := expect_step h .true_ (by decide) hd
      obtain ⟨t, ts, sk, ht, htk, hitems, hsk, hsig⟩ := st.tok
      have hcr := closeRule_spec .boolean [] (.tok t.kind t.start t.stop) sk hsk
      simp only [List.nil_append] at hcr
      exact ⟨st.clean, st.less, _, sk, t, by rw [hitems, hcr], hsk, .inl htk, hsig⟩
    · exact absurd hd (error_changes h)

theorem ruleLiteral_sound {src : List Char} {key : Token → String} {s : PState} (h : CleanSt s)
    (hd : (ruleLiteral s).1.diags = s.diags) : GV src key s (ruleLiteral s) := by
  unfold ruleLiteral at hd ⊢
  simp only at hd ⊢
  split at hd
  · rename_i hc
    simp only [hc, if_true]
    exact literal_of_tokstep (expect_step h .string (by decide) hd) (.inr (.inr rfl))
  rename_i hc1
  simp only [hc1, Bool.false_eq_true, if_false] at hd ⊢
  split at hd
  · rename_i hc
    simp only [hc, if_true]
    exact literal_of_tokstep (expect_step h .number (by decide) hd) (.inr (.inl rfl))
  rename_i hc2
  simp only [hc2, Bool.false_eq_true, if_false] at hd ⊢
  split at hd
  · rename_i hc
    simp only [hc, if_true]
    obtain ⟨a1, a2, cs, sk, t, hitems, hsk, htk, hsig⟩ := ruleBoolean_sound (src := src) (key := key) h hd
    refine ⟨a1, ?_, a2⟩
    have hcr := closeRule_spec .literal [] (.rule .boolean cs) sk hsk
    simp only [List.nil_append, List.map_cons, List.map_nil] at hcr
    rw [hitems, hcr]
    rcases htk with htk | htk
    · exact ⟨_, sk, .bool false, [t], rfl, hsk, rfl, evals_literal_bool, by simpa using hsig, .tru htk⟩
    · exact ⟨_, sk, .bool false, [t], rfl, hsk, rfl, evals_literal_bool, by simpa using hsig, .fls htk⟩
  rename_i hc3
  simp only [hc3, Bool.false_eq_true, if_false] at hd ⊢
  split at hd
  · rename_i hc
    simp only [hc, if_true]
    exact literal_of_tokstep (expect_step h .null_ (by decide) hd) (.inl ⟨rfl, _, rfl⟩)
  · exact absurd hd (error_changes h)

/-! ### the six mutually recursive rule functions -/

theorem grows_trans {d0 : List Diag} {s1 s2 : PState} (h1 : Grows d0 s1) (h2 : Grows s1.diags s2) : Grows d0 s2 := by
  obtain ⟨e1, h1⟩ := h1
  obtain ⟨e2, h2⟩ := h2
  exact ⟨e2 ++ e1, by rw [h2, h1, List.append_assoc]⟩

theorem grows_expect (s : PState) (k : Tok) : Grows s.diags (s.expect k).1 :=
  (grows_stable s.diags).expect k s (grows_refl s)

theorem grows_rules (s : PState) (fuel : Nat) :
    Grows s.diags (ruleValue fuel s).1 ∧ Grows s.diags (ruleMember fuel s).1 ∧
    Grows s.diags (objectLoop fuel s).1 ∧ Grows s.diags (arrayLoop fuel s).1 := by
  have := (grows_stable s.diags).rules fuel
  exact ⟨this.1 s (grows_refl s), this.2.1 s (grows_refl s), this.2.2.1 s (grows_refl s),
    this.2.2.2.2.1 s (grows_refl s)⟩

theorem advanceWithError_changes {s : PState} (h : CleanSt s) : s.advanceWithError.1.diags ≠ s.diags := by
  have : s.advanceWithError.1.diags = s.error.diags := by
    unfold PState.advanceWithError PState.advance
    simp only
    split <;> rfl
  rw [this]
  exact error_changes h

theorem tok_noErr {t : Token} {k : Tok} (hk : t.kind = k) (hne : k ≠ .error) :
    isErrorNode (.tok t.kind t.start t.stop) = false := by
  rw [hk]; cases k <;> first | rfl | exact absurd rfl hne

theorem noErr_append {a b : List Node} (ha : NoErrNodes a) (hb : NoErrNodes b) : NoErrNodes (a ++ b) := by
  intro n hn
  rcases List.mem_append.1 hn with h | h
  · exact ha n h
  · exact hb n h

theorem noErr_cons {n : Node} {b : List Node} (hn : isErrorNode n = false) (hb : NoErrNodes b) :
    NoErrNodes (n :: b) := by
  intro m hm
  rcases List.mem_cons.1 hm with rfl | h
  · exact hn
  · exact hb m h

set_option maxHeartbeats 1000000 in
theorem rules_sound (src : List Char) (key : Token → String) (fuel : Nat) :
    (∀ s, CleanSt s → KeyOk src key s.toks → 2 * s.toks.length + 2 ≤ fuel →
      (ruleValue fuel s).1.diags = s.diags → GV src key s (ruleValue fuel s)) ∧
    (∀ s, CleanSt s → KeyOk src key s.toks → 2 * s.toks.length + 1 ≤ fuel →
      (ruleMember fuel s).1.diags = s.diags → GM src key s (ruleMember fuel s)) ∧
    (∀ s, CleanSt s → KeyOk src key s.toks → 2 * s.toks.length + 1 ≤ fuel →
      (objectLoop fuel s).1.diags = s.diags → GOL src key s (objectLoop fuel s)) ∧
    (∀ s, CleanSt s → KeyOk src key s.toks → 2 * s.toks.length + 1 ≤ fuel →
      (ruleObject fuel s).1.diags = s.diags → GV src key s (ruleObject fuel s)) ∧
    (∀ s, CleanSt s → KeyOk src key s.toks → 2 * s.toks.length + 1 ≤ fuel →
      (arrayLoop fuel s).1.diags = s.diags → GAL src key s (arrayLoop fuel s)) ∧
    (∀ s, CleanSt s → KeyOk src key s.toks → 2 * s.toks.length + 1 ≤ fuel →
      (ruleArray fuel s).1.diags = s.diags → GV src key s (ruleArray fuel s)) := by
  induction fuel with
  | zero => refine ⟨?_, ?_, ?_, ?_, ?_, ?_⟩ <;> (intro s _ _ hf; omega)
  | succ fuel ih =>
    obtain ⟨ihV, ihM, ihOL, ihO, ihAL, ihA⟩ := ih
    refine ⟨?_, ?_, ?_, ?_, ?_, ?_⟩
    · -- ruleValue
      intro s hc hk hf hd
      simp only [ruleValue] at hd ⊢
      split at hd
      · rename_i hcur; simp only [hcur, if_true]; exact ihO s hc hk (by omega) hd
      rename_i h1; simp only [h1, Bool.false_eq_true, if_false] at hd ⊢
      split at hd
      · rename_i hcur; simp only [hcur, if_true]; exact ihA s hc hk (by omega) hd
      rename_i h2; simp only [h2, Bool.false_eq_true, if_false] at hd ⊢
      split at hd
      · rename_i hcur; simp only [hcur, if_true]; exact ruleLiteral_sound hc hd
      · exact absurd hd (error_changes hc)
    · -- ruleMember
      intro s hc hk hf hd
      simp only [ruleMember] at hd ⊢
      generalize hr1 : s.expect .string = r1 at hd ⊢
      generalize hr2 : r1.1.expect .colon = r2 at hd ⊢
      generalize hr3 : ruleValue fuel r2.1 = r3 at hd ⊢
      have g1 : Grows s.diags r1.1 := by rw [← hr1]; exact grows_expect s _
      have g2 : Grows r1.1.diags r2.1 := by rw [← hr2]; exact grows_expect r1.1 _
      have g3 : Grows r2.1.diags r3.1 := by rw [← hr3]; exact (grows_rules r2.1 fuel).1
      have e1 : r1.1.diags = s.diags := same_of_grows g1 (grows_trans g2 g3) hd
      have e2 : r2.1.diags = s.diags := same_of_grows (grows_trans g1 g2) g3 hd
      have st1 : TokStep s r1 .string := by rw [← hr1] at e1 ⊢; exact expect_step hc _ (by decide) e1
      have st2 : TokStep r1.1 r2 .colon := by
        rw [← hr2] at e2 ⊢; exact expect_step st1.clean _ (by decide) (by rw [e2, e1])
      have hsub1 : ∀ t ∈ r1.1.toks, t ∈ s.toks := by rw [← hr1]; exact mem_toks_of_yields (expect_yields _) s
      have hsub2 : ∀ t ∈ r2.1.toks, t ∈ r1.1.toks := by rw [← hr2]; exact mem_toks_of_yields (expect_yields _) r1.1
      have hk2 : KeyOk src key r2.1.toks := keyOk_of_subset hk (fun t ht => hsub1 t (hsub2 t ht))
      have l1 := st1.less
      have l2 := st2.less
      have gv : GV src key r2.1 r3 := by
        rw [← hr3]; exact ihV r2.1 st2.clean hk2 (by omega) (by rw [hr3, hd, e2])
      obtain ⟨kt, ts1, sk1, ht1, hkt, hi1, hsk1, hsig1⟩ := st1.tok
      obtain ⟨ct, ts2, sk2, ht2, hct, hi2, hsk2, hsig2⟩ := st2.tok
      obtain ⟨n, sk3, v, ph, hi3, hsk3, hvn, hev, hsig3, htv⟩ := gv.node
      refine ⟨gv.clean, ?_, by show r3.1.toks.length < s.toks.length; have := gv.less; omega⟩
      obtain ⟨txt, hsl, hlen, hkey⟩ := hk kt (by rw [ht1]; simp) hkt
      have hcr := closeRule_spec .member (⟨.tok kt.kind kt.start kt.stop, false⟩ :: sk1 ++
        ⟨.tok ct.kind ct.start ct.stop, false⟩ :: sk2) n sk3 hsk3
      have hitems : r1.2 ++ r2.2 ++ r3.2 = (⟨.tok kt.kind kt.start kt.stop, false⟩ :: sk1 ++
          ⟨.tok ct.kind ct.start ct.stop, false⟩ :: sk2) ++ ⟨n, false⟩ :: sk3 := by
        simp [hi1, hi2, hi3]
      rw [hitems, hcr]
      refine ⟨_, sk3, v, ph, kt, ct, rfl, hsk3, ?_, hkt, hct, by rw [hsig1, hsig2, hsig3]; simp, htv⟩
      -- the children spell the member
      have hchildren : ((⟨.tok kt.kind kt.start kt.stop, false⟩ :: sk1 ++
          ⟨.tok ct.kind ct.start ct.stop, false⟩ :: sk2 ++ [(⟨n, false⟩ : Item)]).map (fun i : Item => i.node)) =
          .tok .string kt.start kt.stop ::
            (sk1.map (·.node) ++ .tok ct.kind ct.start ct.stop :: sk2.map (·.node)) ++ [n] := by
        simp [hkt]
      rw [hchildren, hkey]
      refine member_rep ?_ hvn hev ?_ hsl hlen
      · intro m hm
        rcases List.mem_append.1 hm with hm | hm
        · exact skipItems_notValue hsk1 m hm
        · rcases List.mem_cons.1 hm with rfl | hm
          · rfl
          · exact skipItems_notValue hsk2 m hm
      · have := (valueRule_facts hvn).1
        refine noErr_cons rfl (noErr_append (noErr_append (skipItems_noErr hsk1)
          (noErr_cons (tok_noErr hct (by decide)) (skipItems_noErr hsk2))) ?_)
        intro m hm; simp only [List.mem_singleton] at hm; subst hm; exact this
    · -- objectLoop
      intro s hc hk hf hd
      simp only [objectLoop] at hd ⊢
      split at hd
      · rename_i hcur
        simp only [hcur, if_true]
        generalize hr1 : s.expect .comma = r1 at hd ⊢
        generalize hr2 : ruleMember fuel r1.1 = r2 at hd ⊢
        generalize hr3 : objectLoop fuel r2.1 = r3 at hd ⊢
        have g1 : Grows s.diags r1.1 := by rw [← hr1]; exact grows_expect s _
        have g2 : Grows r1.1.diags r2.1 := by rw [← hr2]; exact (grows_rules r1.1 fuel).2.1
        have g3 : Grows r2.1.diags r3.1 := by rw [← hr3]; exact (grows_rules r2.1 fuel).2.2.1
        have e1 : r1.1.diags = s.diags := same_of_grows g1 (grows_trans g2 g3) hd
        have e2 : r2.1.diags = s.diags := same_of_grows (grows_trans g1 g2) g3 hd
        have st1 : TokStep s r1 .comma := by rw [← hr1] at e1 ⊢; exact expect_step hc _ (by decide) e1
        have hsub1 : ∀ t ∈ r1.1.toks, t ∈ s.toks := by rw [← hr1]; exact mem_toks_of_yields (expect_yields _) s
        have hk1 : KeyOk src key r1.1.toks := keyOk_of_subset hk hsub1
        have l1 := st1.less
        have gm : GM src key r1.1 r2 := by
          rw [← hr2]; exact ihM r1.1 st1.clean hk1 (by omega) (by rw [hr2, e2, e1])
        have hsub2 : ∀ t ∈ r2.1.toks, t ∈ r1.1.toks := by
          rw [← hr2]; exact mem_toks_of_yields (rules_yield fuel).2.1 r1.1
        have hk2 : KeyOk src key r2.1.toks := keyOk_of_subset hk1 hsub2
        have l2 := gm.less
        have gl : GOL src key r2.1 r3 := by
          rw [← hr3]; exact ihOL r2.1 gm.clean hk2 (by omega) (by rw [hr3, hd, e2])
        obtain ⟨mt, ts1, sk1, ht1, hmt, hi1, hsk1, hsig1⟩ := st1.tok
        obtain ⟨cs, sk2, v, ph, kt, ct, hi2, hsk2, hmr, hkt, hct, hsig2, htv⟩ := gm.node
        obtain ⟨ms, ph3, hne3, hrep3, hmore, hsig3⟩ := gl.node
        refine ⟨gl.clean, ?_, by show r3.1.toks.length ≤ s.toks.length; have := gl.le; omega⟩
        refine ⟨(key kt, v) :: ms, mt :: kt :: ct :: ph ++ ph3, ?_, ?_, .cons hmt hkt hct htv hmore,
          by rw [hsig1, hsig2, hsig3]; simp⟩
        · rw [hi1, hi2]
          simp only [List.map_append, List.map_cons]
          exact noErr_append (noErr_append (noErr_cons (tok_noErr hmt (by decide)) (skipItems_noErr hsk1))
            (noErr_cons rfl (skipItems_noErr hsk2))) hne3
        · rw [hi1, hi2]
          simp only [List.map_append, List.map_cons]
          have a := MembersRep.other (src := src) (n := .tok mt.kind mt.start mt.stop) rfl (skipItems_other hsk1)
          have b := MembersRep.mem hmr (skipItems_other (src := src) hsk2)
          simpa using (a.append b).append hrep3
      · rename_i h1
        simp only [h1, Bool.false_eq_true, if_false] at hd ⊢
        split at hd
        · rename_i hex
          simp only [hex, if_true]
          exact ⟨hc, ⟨[], [], (fun n hn => by simp at hn), .nil, .nil, by simp⟩, Nat.le_refl _⟩
        · exfalso
          have g := (grows_rules s.advanceWithError.1 fuel).2.2.1
          have g0 : Grows s.diags s.advanceWithError.1 := (grows_stable s.diags).advanceWithError s (grows_refl s)
          exact advanceWithError_changes hc (same_of_grows g0 g hd)
    · -- ruleObject
      intro s hc hk hf hd
      simp only [ruleObject] at hd ⊢
      generalize hr1 : s.expect .lbrace = r1 at hd ⊢
      have g1 : Grows s.diags r1.1 := by rw [← hr1]; exact grows_expect s _
      have hsub1 : ∀ t ∈ r1.1.toks, t ∈ s.toks := by rw [← hr1]; exact mem_toks_of_yields (expect_yields _) s
      have hk1 : KeyOk src key r1.1.toks := keyOk_of_subset hk hsub1
      split at hd
      · -- at least one member
        rename_i hcur
        simp only [hcur, if_true]
        generalize hr2 : ruleMember fuel r1.1 = r2 at hd ⊢
        generalize hr3 : objectLoop fuel r2.1 = r3 at hd ⊢
        simp only at hd ⊢
        generalize hr4 : r3.1.expect .rbrace = r4 at hd ⊢
        have g2 : Grows r1.1.diags r2.1 := by rw [← hr2]; exact (grows_rules r1.1 fuel).2.1
        have g3 : Grows r2.1.diags r3.1 := by rw [← hr3]; exact (grows_rules r2.1 fuel).2.2.1
        have g4 : Grows r3.1.diags r4.1 := by rw [← hr4]; exact grows_expect r3.1 _
        have e1 : r1.1.diags = s.diags := same_of_grows g1 (grows_trans g2 (grows_trans g3 g4)) hd
        have e2 : r2.1.diags = s.diags := same_of_grows (grows_trans g1 g2) (grows_trans g3 g4) hd
        have e3 : r3.1.diags = s.diags := same_of_grows (grows_trans (grows_trans g1 g2) g3) g4 hd
        have st1 : TokStep s r1 .lbrace := by rw [← hr1] at e1 ⊢; exact expect_step hc _ (by decide) e1
        have l1 := st1.less
        have gm : GM src key r1.1 r2 := by
          rw [← hr2]; exact ihM r1.1 st1.clean hk1 (by omega) (by rw [hr2, e2, e1])
        have hsub2 : ∀ t ∈ r2.1.toks, t ∈ r1.1.toks := by
          rw [← hr2]; exact mem_toks_of_yields (rules_yield fuel).2.1 r1.1
        have hk2 : KeyOk src key r2.1.toks := keyOk_of_subset hk1 hsub2
        have l2 := gm.less
        have gl : GOL src key r2.1 r3 := by
          rw [← hr3]; exact ihOL r2.1 gm.clean hk2 (by omega) (by rw [hr3, e3, e2])
        have st4 : TokStep r3.1 r4 .rbrace := by
          rw [← hr4]; exact expect_step gl.clean _ (by decide) (by rw [hr4, hd, e3])
        obtain ⟨lt, ts1, sk1, ht1, hlt, hi1, hsk1, hsig1⟩ := st1.tok
        obtain ⟨cs, sk2, v, ph, kt, ct, hi2, hsk2, hmr, hkt, hct, hsig2, htv⟩ := gm.node
        obtain ⟨ms, ph3, hne3, hrep3, hmore, hsig3⟩ := gl.node
        obtain ⟨rt, ts4, sk4, ht4, hrt, hi4, hsk4, hsig4⟩ := st4.tok
        refine ⟨st4.clean, ?_, by show r4.1.toks.length < s.toks.length; have := gl.le; have := st4.less; omega⟩
        have hitems : r1.2 ++ (r2.2 ++ r3.2) ++ r4.2 =
            (⟨.tok lt.kind lt.start lt.stop, false⟩ :: sk1 ++ (⟨.rule .member cs, false⟩ :: sk2 ++ r3.2)) ++
              ⟨.tok rt.kind rt.start rt.stop, false⟩ :: sk4 := by
          simp [hi1, hi2, hi4]
        have hcr := closeRule_spec .object (⟨.tok lt.kind lt.start lt.stop, false⟩ :: sk1 ++
          (⟨.rule .member cs, false⟩ :: sk2 ++ r3.2)) (.tok rt.kind rt.start rt.stop) sk4 hsk4
        rw [hitems, hcr]
        refine ⟨_, sk4, .obj ((key kt, v) :: ms), lt :: (kt :: ct :: ph ++ ph3) ++ [rt], rfl, hsk4, rfl, ?_,
          by rw [hsig1, hsig2, hsig3, hsig4]; simp, .obj hlt hrt (members_of_more hkt hct htv hmore)⟩
        apply evals_object
        · simp only [List.map_append, List.map_cons, List.map_nil]
          refine noErr_append (noErr_cons (tok_noErr hlt (by decide)) (noErr_append (skipItems_noErr hsk1)
            (noErr_cons rfl (noErr_append (skipItems_noErr hsk2) hne3)))) ?_
          intro m hm; simp only [List.mem_singleton] at hm; subst hm; exact tok_noErr hrt (by decide)
        · simp only [List.map_append, List.map_cons, List.map_nil]
          have a := MembersRep.other (src := src) (n := .tok lt.kind lt.start lt.stop) rfl (skipItems_other hsk1)
          have b := MembersRep.mem hmr ((skipItems_other (src := src) hsk2).append hrep3)
          have c := MembersRep.other (src := src) (n := .tok rt.kind rt.start rt.stop) rfl .nil
          simpa using (a.append b).append c
      · rename_i h1
        simp only [h1, Bool.false_eq_true, if_false] at hd ⊢
        split at hd
        · -- empty object
          rename_i hcur
          simp only [hcur, if_true]
          generalize hr4 : r1.1.expect .rbrace = r4 at hd ⊢
          have g4 : Grows r1.1.diags r4.1 := by rw [← hr4]; exact grows_expect r1.1 _
          have e1 : r1.1.diags = s.diags := same_of_grows g1 g4 hd
          have st1 : TokStep s r1 .lbrace := by rw [← hr1] at e1 ⊢; exact expect_step hc _ (by decide) e1
          have st4 : TokStep r1.1 r4 .rbrace := by
            rw [← hr4]; exact expect_step st1.clean _ (by decide) (by rw [hr4, hd, e1])
          obtain ⟨lt, ts1, sk1, ht1, hlt, hi1, hsk1, hsig1⟩ := st1.tok
          obtain ⟨rt, ts4, sk4, ht4, hrt, hi4, hsk4, hsig4⟩ := st4.tok
          refine ⟨st4.clean, ?_, by show r4.1.toks.length < s.toks.length; have := st1.less; have := st4.less; omega⟩
          have hitems : r1.2 ++ [] ++ r4.2 = (⟨.tok lt.kind lt.start lt.stop, false⟩ :: sk1) ++
              ⟨.tok rt.kind rt.start rt.stop, false⟩ :: sk4 := by simp [hi1, hi4]
          have hcr := closeRule_spec .object (⟨.tok lt.kind lt.start lt.stop, false⟩ :: sk1)
            (.tok rt.kind rt.start rt.stop) sk4 hsk4
          rw [hitems, hcr]
          refine ⟨_, sk4, .obj [], [lt, rt], rfl, hsk4, rfl, ?_, by rw [hsig1, hsig4]; simp, .objE hlt hrt⟩
          apply evals_object
          · simp only [List.map_append, List.map_cons, List.map_nil]
            refine noErr_append (noErr_cons (tok_noErr hlt (by decide)) (skipItems_noErr hsk1)) ?_
            intro m hm; simp only [List.mem_singleton] at hm; subst hm; exact tok_noErr hrt (by decide)
          · simp only [List.map_append, List.map_cons, List.map_nil]
            have a := MembersRep.other (src := src) (n := .tok lt.kind lt.start lt.stop) rfl (skipItems_other hsk1)
            have c := MembersRep.other (src := src) (n := .tok rt.kind rt.start rt.stop) rfl .nil
            simpa using a.append c
        · -- neither a member nor `}`: reported
          exfalso
          rename_i hcur
          generalize hr4 : r1.1.error.expect .rbrace = r4 at hd
          have g4 : Grows r1.1.error.diags r4.1 := by rw [← hr4]; exact grows_expect r1.1.error _
          have ge : Grows r1.1.diags r1.1.error := (grows_stable r1.1.diags).error r1.1 (grows_refl _)
          have e1 : r1.1.diags = s.diags := same_of_grows g1 (grows_trans ge g4) hd
          have st1 : TokStep s r1 .lbrace := by rw [← hr1] at e1 ⊢; exact expect_step hc _ (by decide) e1
          have e2 : r1.1.error.diags = s.diags := same_of_grows (grows_trans g1 ge) g4 hd
          exact error_changes st1.clean (by rw [e2, e1])
    · -- arrayLoop
      intro s hc hk hf hd
      simp only [arrayLoop] at hd ⊢
      split at hd
      · rename_i hcur
        simp only [hcur, if_true]
        generalize hr1 : s.expect .comma = r1 at hd ⊢
        generalize hr2 : ruleValue fuel r1.1 = r2 at hd ⊢
        generalize hr3 : arrayLoop fuel r2.1 = r3 at hd ⊢
        have g1 : Grows s.diags r1.1 := by rw [← hr1]; exact grows_expect s _
        have g2 : Grows r1.1.diags r2.1 := by rw [← hr2]; exact (grows_rules r1.1 fuel).1
        have g3 : Grows r2.1.diags r3.1 := by rw [← hr3]; exact (grows_rules r2.1 fuel).2.2.2
        have e1 : r1.1.diags = s.diags := same_of_grows g1 (grows_trans g2 g3) hd
        have e2 : r2.1.diags = s.diags := same_of_grows (grows_trans g1 g2) g3 hd
        have st1 : TokStep s r1 .comma := by rw [← hr1] at e1 ⊢; exact expect_step hc _ (by decide) e1
        have hsub1 : ∀ t ∈ r1.1.toks, t ∈ s.toks := by rw [← hr1]; exact mem_toks_of_yields (expect_yields _) s
        have hk1 : KeyOk src key r1.1.toks := keyOk_of_subset hk hsub1
        have l1 := st1.less
        have gv : GV src key r1.1 r2 := by
          rw [← hr2]; exact ihV r1.1 st1.clean hk1 (by omega) (by rw [hr2, e2, e1])
        have hsub2 : ∀ t ∈ r2.1.toks, t ∈ r1.1.toks := by
          rw [← hr2]; exact mem_toks_of_yields (rules_yield fuel).1 r1.1
        have hk2 : KeyOk src key r2.1.toks := keyOk_of_subset hk1 hsub2
        have l2 := gv.less
        have gl : GAL src key r2.1 r3 := by
          rw [← hr3]; exact ihAL r2.1 gv.clean hk2 (by omega) (by rw [hr3, hd, e2])
        obtain ⟨mt, ts1, sk1, ht1, hmt, hi1, hsk1, hsig1⟩ := st1.tok
        obtain ⟨n, sk2, x, ph, hi2, hsk2, hvn, hev, hsig2, htv⟩ := gv.node
        obtain ⟨xs, ph3, hne3, hrep3, hmore, hsig3⟩ := gl.node
        refine ⟨gl.clean, ?_, by show r3.1.toks.length ≤ s.toks.length; have := gl.le; omega⟩
        refine ⟨x :: xs, mt :: ph ++ ph3, ?_, ?_, .cons hmt htv hmore, by rw [hsig1, hsig2, hsig3]; simp⟩
        · rw [hi1, hi2]
          simp only [List.map_append, List.map_cons]
          exact noErr_append (noErr_append (noErr_cons (tok_noErr hmt (by decide)) (skipItems_noErr hsk1))
            (noErr_cons (valueRule_facts hvn).1 (skipItems_noErr hsk2))) hne3
        · rw [hi1, hi2]
          simp only [List.map_append, List.map_cons]
          have a := ElemsRep.punct (src := src) (n := .tok mt.kind mt.start mt.stop) (by rw [hmt]; rfl)
            (skipItems_punct hsk1)
          have b := ElemsRep.val (valueRule_facts hvn).2.1 hev (skipItems_punct (src := src) hsk2)
          simpa using (a.append b).append hrep3
      · rename_i h1
        simp only [h1, Bool.false_eq_true, if_false] at hd ⊢
        split at hd
        · rename_i hex
          simp only [hex, if_true]
          exact ⟨hc, ⟨[], [], (fun n hn => by simp at hn), .nil, .nil, by simp⟩, Nat.le_refl _⟩
        · exfalso
          have g := (grows_rules s.advanceWithError.1 fuel).2.2.2
          have g0 : Grows s.diags s.advanceWithError.1 := (grows_stable s.diags).advanceWithError s (grows_refl s)
          exact advanceWithError_changes hc (same_of_grows g0 g hd)
    · -- ruleArray
      intro s hc hk hf hd
      simp only [ruleArray] at hd ⊢
      generalize hr1 : s.expect .lbrak = r1 at hd ⊢
      have g1 : Grows s.diags r1.1 := by rw [← hr1]; exact grows_expect s _
      have hsub1 : ∀ t ∈ r1.1.toks, t ∈ s.toks := by rw [← hr1]; exact mem_toks_of_yields (expect_yields _) s
      have hk1 : KeyOk src key r1.1.toks := keyOk_of_subset hk hsub1
      split at hd
      · rename_i hcur
        simp only [hcur, if_true]
        generalize hr2 : ruleValue fuel r1.1 = r2 at hd ⊢
        generalize hr3 : arrayLoop fuel r2.1 = r3 at hd ⊢
        simp only at hd ⊢
        generalize hr4 : r3.1.expect .rbrak = r4 at hd ⊢
        have g2 : Grows r1.1.diags r2.1 := by rw [← hr2]; exact (grows_rules r1.1 fuel).1
        have g3 : Grows r2.1.diags r3.1 := by rw [← hr3]; exact (grows_rules r2.1 fuel).2.2.2
        have g4 : Grows r3.1.diags r4.1 := by rw [← hr4]; exact grows_expect r3.1 _
        have e1 : r1.1.diags = s.diags := same_of_grows g1 (grows_trans g2 (grows_trans g3 g4)) hd
        have e2 : r2.1.diags = s.diags := same_of_grows (grows_trans g1 g2) (grows_trans g3 g4) hd
        have e3 : r3.1.diags = s.diags := same_of_grows (grows_trans (grows_trans g1 g2) g3) g4 hd
        have st1 : TokStep s r1 .lbrak := by rw [← hr1] at e1 ⊢; exact expect_step hc _ (by decide) e1
        have l1 := st1.less
        have gv : GV src key r1.1 r2 := by
          rw [← hr2]; exact ihV r1.1 st1.clean hk1 (by omega) (by rw [hr2, e2, e1])
        have hsub2 : ∀ t ∈ r2.1.toks, t ∈ r1.1.toks := by
          rw [← hr2]; exact mem_toks_of_yields (rules_yield fuel).1 r1.1
        have hk2 : KeyOk src key r2.1.toks := keyOk_of_subset hk1 hsub2
        have l2 := gv.less
        have gl : GAL src key r2.1 r3 := by
          rw [← hr3]; exact ihAL r2.1 gv.clean hk2 (by omega) (by rw [hr3, e3, e2])
        have st4 : TokStep r3.1 r4 .rbrak := by
          rw [← hr4]; exact expect_step gl.clean _ (by decide) (by rw [hr4, hd, e3])
        obtain ⟨lt, ts1, sk1, ht1, hlt, hi1, hsk1, hsig1⟩ := st1.tok
        obtain ⟨n, sk2, x, ph, hi2, hsk2, hvn, hev, hsig2, htv⟩ := gv.node
        obtain ⟨xs, ph3, hne3, hrep3, hmore, hsig3⟩ := gl.node
        obtain ⟨rt, ts4, sk4, ht4, hrt, hi4, hsk4, hsig4⟩ := st4.tok
        refine ⟨st4.clean, ?_, by show r4.1.toks.length < s.toks.length; have := gl.le; have := st4.less; omega⟩
        have hitems : r1.2 ++ (r2.2 ++ r3.2) ++ r4.2 =
            (⟨.tok lt.kind lt.start lt.stop, false⟩ :: sk1 ++ (⟨n, false⟩ :: sk2 ++ r3.2)) ++
              ⟨.tok rt.kind rt.start rt.stop, false⟩ :: sk4 := by
          simp [hi1, hi2, hi4]
        have hcr := closeRule_spec .array (⟨.tok lt.kind lt.start lt.stop, false⟩ :: sk1 ++
          (⟨n, false⟩ :: sk2 ++ r3.2)) (.tok rt.kind rt.start rt.stop) sk4 hsk4
        rw [hitems, hcr]
        refine ⟨_, sk4, .arr (x :: xs), lt :: (ph ++ ph3) ++ [rt], rfl, hsk4, rfl, ?_,
          by rw [hsig1, hsig2, hsig3, hsig4]; simp, .arr hlt hrt (elems_of_more htv hmore)⟩
        apply evals_array
        · simp only [List.map_append, List.map_cons, List.map_nil]
          refine noErr_append (noErr_cons (tok_noErr hlt (by decide)) (noErr_append (skipItems_noErr hsk1)
            (noErr_cons (valueRule_facts hvn).1 (noErr_append (skipItems_noErr hsk2) hne3)))) ?_
          intro m hm; simp only [List.mem_singleton] at hm; subst hm; exact tok_noErr hrt (by decide)
        · simp only [List.map_append, List.map_cons, List.map_nil]
          have a := ElemsRep.punct (src := src) (n := .tok lt.kind lt.start lt.stop) (by rw [hlt]; rfl)
            (skipItems_punct hsk1)
          have b := ElemsRep.val (valueRule_facts hvn).2.1 hev ((skipItems_punct (src := src) hsk2).append hrep3)
          have c := ElemsRep.punct (src := src) (n := .tok rt.kind rt.start rt.stop) (by rw [hrt]; rfl) .nil
          simpa using (a.append b).append c
      · rename_i h1
        simp only [h1, Bool.false_eq_true, if_false] at hd ⊢
        split at hd
        · rename_i hcur
          simp only [hcur, if_true]
          generalize hr4 : r1.1.expect .rbrak = r4 at hd ⊢
          have g4 : Grows r1.1.diags r4.1 := by rw [← hr4]; exact grows_expect r1.1 _
          have e1 : r1.1.diags = s.diags := same_of_grows g1 g4 hd
          have st1 : TokStep s r1 .lbrak := by rw [← hr1] at e1 ⊢; exact expect_step hc _ (by decide) e1
          have st4 : TokStep r1.1 r4 .rbrak := by
            rw [← hr4]; exact expect_step st1.clean _ (by decide) (by rw [hr4, hd, e1])
          obtain ⟨lt, ts1, sk1, ht1, hlt, hi1, hsk1, hsig1⟩ := st1.tok
          obtain ⟨rt, ts4, sk4, ht4, hrt, hi4, hsk4, hsig4⟩ := st4.tok
          refine ⟨st4.clean, ?_, by show r4.1.toks.length < s.toks.length; have := st1.less; have := st4.less; omega⟩
          have hitems : r1.2 ++ [] ++ r4.2 = (⟨.tok lt.kind lt.start lt.stop, false⟩ :: sk1) ++
              ⟨.tok rt.kind rt.start rt.stop, false⟩ :: sk4 := by simp [hi1, hi4]
          have hcr := closeRule_spec .array (⟨.tok lt.kind lt.start lt.stop, false⟩ :: sk1)
            (.tok rt.kind rt.start rt.stop) sk4 hsk4
          rw [hitems, hcr]
          refine ⟨_, sk4, .arr [], [lt, rt], rfl, hsk4, rfl, ?_, by rw [hsig1, hsig4]; simp, .arrE hlt hrt⟩
          apply evals_array
          · simp only [List.map_append, List.map_cons, List.map_nil]
            refine noErr_append (noErr_cons (tok_noErr hlt (by decide)) (skipItems_noErr hsk1)) ?_
            intro m hm; simp only [List.mem_singleton] at hm; subst hm; exact tok_noErr hrt (by decide)
          · simp only [List.map_append, List.map_cons, List.map_nil]
            have a := ElemsRep.punct (src := src) (n := .tok lt.kind lt.start lt.stop) (by rw [hlt]; rfl)
              (skipItems_punct hsk1)
            have c := ElemsRep.punct (src := src) (n := .tok rt.kind rt.start rt.stop) (by rw [hrt]; rfl) .nil
            simpa using a.append c
        · exfalso
          rename_i hcur
          generalize hr4 : r1.1.error.expect .rbrak = r4 at hd
          have g4 : Grows r1.1.error.diags r4.1 := by rw [← hr4]; exact grows_expect r1.1.error _
          have ge : Grows r1.1.diags r1.1.error := (grows_stable r1.1.diags).error r1.1 (grows_refl _)
          have e1 : r1.1.diags = s.diags := same_of_grows g1 (grows_trans ge g4) hd
          have st1 : TokStep s r1 .lbrak := by rw [← hr1] at e1 ⊢; exact expect_step hc _ (by decide) e1
          have e2 : r1.1.error.diags = s.diags := same_of_grows (grows_trans g1 ge) g4 hd
          exact error_changes st1.clean (by rw [e2, e1])

end ShapeVerif
