/-
Invariants of the lexer model: every step consumes a non-empty prefix, token spans are ordered pairs
of character boundaries that follow each other, a `String` token spans at least its two quotes, and
every diagnostic carries an ordered pair of character boundaries.
-/
import ShapeVerif.Lemmas.Slice
namespace ShapeVerif

theorem takeWhileC_append (p : Char → Bool) : ∀ cs : List Char, (takeWhileC p cs).1 ++ (takeWhileC p cs).2 = cs
  | [] => rfl
  | c :: cs => by
    unfold takeWhileC
    split
    · simp [takeWhileC_append p cs]
    · rfl

theorem scanString_append : ∀ cs : List Char, (scanString cs).1 ++ (scanString cs).2.1 = cs := by
  intro cs
  fun_induction scanString cs <;> first | assumption | (simp; done) | (simp; assumption)

theorem scanString_closed_ne_nil : ∀ cs : List Char, (scanString cs).2.2 = true → (scanString cs).1 ≠ [] := by
  intro cs
  fun_induction scanString cs <;> first | (simp; done) | (intro h; simp) | assumption

theorem numSign_append (cs : List Char) : (numSign cs).1 ++ (numSign cs).2 = cs := by
  unfold numSign; split <;> simp

theorem numInt_append {cs i r : List Char} (h : numInt cs = some (i, r)) : i ++ r = cs ∧ i ≠ [] := by
  unfold numInt at h
  split at h
  · cases h; simp
  · split at h
    · cases h; simp [takeWhileC_append]
    · cases h
  · cases h

theorem numFrac_append (cs : List Char) : (numFrac cs).1 ++ (numFrac cs).2 = cs := by
  unfold numFrac
  split
  · simp only; split <;> simp [takeWhileC_append]
  · simp

theorem ite_pair_append {α : Type} (c : Prop) [Decidable c] (a1 a2 b1 b2 r : List α)
    (h1 : c → a1 ++ a2 = r) (h2 : ¬ c → b1 ++ b2 = r) :
    (if c then (a1, a2) else (b1, b2)).1 ++ (if c then (a1, a2) else (b1, b2)).2 = r := by
  split
  · exact h1 ‹_›
  · exact h2 ‹_›

theorem expSign_append (cs : List Char) : (expSign cs).1 ++ (expSign cs).2 = cs := by
  unfold expSign; split <;> simp

theorem numExp_append (cs : List Char) : (numExp cs).1 ++ (numExp cs).2 = cs := by
  unfold numExp
  split
  · split
    · simp only
      apply ite_pair_append
      · intro _; simp
      · intro _
        rename_i e r _
        simp only [List.cons_append, List.append_assoc, takeWhileC_append, expSign_append]
    · simp
  · simp

theorem scanNumber_append {cs n rest : List Char} (h : scanNumber cs = some (n, rest)) :
    n ++ rest = cs ∧ n ≠ [] := by
  unfold scanNumber at h
  simp only at h
  split at h
  · cases h
  · rename_i i hi
    obtain ⟨i1, i2⟩ := i
    have h1 := numInt_append hi
    cases h
    refine ⟨?_, by simp [h1.2]⟩
    have h2 := numSign_append cs
    simp only [List.append_assoc]
    rw [numExp_append, numFrac_append, h1.1, h2]

/-- one lexer step splits the input into a non-empty token text and the rest; a `String` token
spans at least its two quotes -/
theorem lexOne_spec (c : Char) (cs : List Char) :
    (lexOne (c :: cs)).2.2.1 ++ (lexOne (c :: cs)).2.2.2 = c :: cs ∧ (lexOne (c :: cs)).2.2.1 ≠ [] ∧
      ((lexOne (c :: cs)).1 = .string → 2 ≤ (lexOne (c :: cs)).2.2.1.length) := by
  by_cases h1 : isWsChar c = true
  · simp [lexOne, h1, takeWhileC_append]
  by_cases h2 : (c == '\n') = true
  · simp [lexOne, h1, h2]
  by_cases h3 : (c == '\r') = true
  · have : c = '\r' := by simpa using h3
    subst this
    have e1 : isWsChar '\r' = false := by decide
    have e2 : ('\r' == '\n') = false := by decide
    simp only [lexOne, e1, e2, Bool.false_eq_true, if_false, beq_self_eq_true, if_true]
    split <;> simp
  by_cases h4 : (c == '{') = true
  · simp [lexOne, h1, h2, h3, h4]
  by_cases h5 : (c == '}') = true
  · simp [lexOne, h1, h2, h3, h4, h5]
  by_cases h6 : (c == '[') = true
  · simp [lexOne, h1, h2, h3, h4, h5, h6]
  by_cases h7 : (c == ']') = true
  · simp [lexOne, h1, h2, h3, h4, h5, h6, h7]
  by_cases h8 : (c == ',') = true
  · simp [lexOne, h1, h2, h3, h4, h5, h6, h7, h8]
  by_cases h9 : (c == ':') = true
  · simp [lexOne, h1, h2, h3, h4, h5, h6, h7, h8, h9]
  by_cases h10 : (c == '"') = true
  · simp only [lexOne, h1, h2, h3, h4, h5, h6, h7, h8, h9, h10, if_true, if_false]
    by_cases hc : (scanString cs).2.2 = true
    · simp only [hc, if_true]
      refine ⟨by simp [scanString_append], by simp, fun _ => ?_⟩
      have := scanString_closed_ne_nil cs hc
      cases h : (scanString cs).1 with
      | nil => exact absurd h this
      | cons a l => simp
    · simp only [hc, if_false]
      exact ⟨by simp [scanString_append], by simp, by simp⟩
  by_cases h11 : isAlphaC c = true
  · simp only [lexOne, h1, h2, h3, h4, h5, h6, h7, h8, h9, h10, h11, if_true, if_false]
    by_cases w1 : (c :: (takeWhileC isAlnumC cs).1 == ['t', 'r', 'u', 'e']) = true
    · simp only [w1, if_true]; exact ⟨by simp [takeWhileC_append], by simp, by simp⟩
    by_cases w2 : (c :: (takeWhileC isAlnumC cs).1 == ['f', 'a', 'l', 's', 'e']) = true
    · simp only [w1, w2, if_true, if_false]; exact ⟨by simp [takeWhileC_append], by simp, by simp⟩
    by_cases w3 : (c :: (takeWhileC isAlnumC cs).1 == ['n', 'u', 'l', 'l']) = true
    · simp only [w1, w2, w3, if_true, if_false]; exact ⟨by simp [takeWhileC_append], by simp, by simp⟩
    · simp only [w1, w2, w3, if_false]; exact ⟨by simp [takeWhileC_append], by simp, by simp⟩
  · simp only [lexOne, h1, h2, h3, h4, h5, h6, h7, h8, h9, h10, h11, if_false]
    cases hn : scanNumber (c :: cs) with
    | none => simp
    | some nr =>
      obtain ⟨n, rest⟩ := nr
      have := scanNumber_append hn
      simp only
      exact ⟨this.1, this.2, by simp⟩

theorem lexOne_kind (c : Char) (cs : List Char) :
    (lexOne (c :: cs)).1 ≠ .eof ∧ ((lexOne (c :: cs)).2.1 = none → (lexOne (c :: cs)).1 ≠ .error) ∧
      ((lexOne (c :: cs)).2.1 ≠ none → (lexOne (c :: cs)).1 = .error) := by
  by_cases h1 : isWsChar c = true
  · simp [lexOne, h1]
  by_cases h2 : (c == '\n') = true
  · simp [lexOne, h1, h2]
  by_cases h3 : (c == '\r') = true
  · have : c = '\r' := by simpa using h3
    subst this
    have e1 : isWsChar '\r' = false := by decide
    have e2 : ('\r' == '\n') = false := by decide
    simp only [lexOne, e1, e2, Bool.false_eq_true, if_false, beq_self_eq_true, if_true]
    split <;> simp
  by_cases h4 : (c == '{') = true
  · simp [lexOne, h1, h2, h3, h4]
  by_cases h5 : (c == '}') = true
  · simp [lexOne, h1, h2, h3, h4, h5]
  by_cases h6 : (c == '[') = true
  · simp [lexOne, h1, h2, h3, h4, h5, h6]
  by_cases h7 : (c == ']') = true
  · simp [lexOne, h1, h2, h3, h4, h5, h6, h7]
  by_cases h8 : (c == ',') = true
  · simp [lexOne, h1, h2, h3, h4, h5, h6, h7, h8]
  by_cases h9 : (c == ':') = true
  · simp [lexOne, h1, h2, h3, h4, h5, h6, h7, h8, h9]
  by_cases h10 : (c == '"') = true
  · simp only [lexOne, h1, h2, h3, h4, h5, h6, h7, h8, h9, h10, if_true, if_false]
    by_cases hc : (scanString cs).2.2 = true
    · simp [hc]
    · simp [hc]
  by_cases h11 : isAlphaC c = true
  · simp only [lexOne, h1, h2, h3, h4, h5, h6, h7, h8, h9, h10, h11, if_true, if_false]
    by_cases w1 : (c :: (takeWhileC isAlnumC cs).1 == ['t', 'r', 'u', 'e']) = true
    · simp [w1]
    by_cases w2 : (c :: (takeWhileC isAlnumC cs).1 == ['f', 'a', 'l', 's', 'e']) = true
    · simp [w1, w2]
    by_cases w3 : (c :: (takeWhileC isAlnumC cs).1 == ['n', 'u', 'l', 'l']) = true
    · simp [w1, w2, w3]
    · simp [w1, w2, w3]
  · simp only [lexOne, h1, h2, h3, h4, h5, h6, h7, h8, h9, h10, h11, if_false]
    cases hn : scanNumber (c :: cs) with
    | none => simp
    | some nr => obtain ⟨n, rest⟩ := nr; simp

/-! ### byte sizes of the ASCII characters the string checker looks at -/

theorem utf8Size_of_lt {c : Char} (h : c.toNat < 128) : c.utf8Size = 1 := by
  unfold Char.utf8Size
  have : c.val ≤ 127 := by
    show c.val.toNat ≤ 127
    have : c.toNat = c.val.toNat := rfl
    omega
  simp [this]

theorem toNat_le_of_le {c d : Char} (h : c ≤ d) : c.toNat ≤ d.toNat := Char.le_def.1 h

theorem isHexC_size {h : Char} (hh : isHexC h = true) : h.utf8Size = 1 := by
  apply utf8Size_of_lt
  simp only [isHexC, isDigitC, Bool.or_eq_true, Bool.and_eq_true, decide_eq_true_eq] at hh
  rcases hh with (⟨_, h2⟩ | ⟨_, h2⟩) | ⟨_, h2⟩
  · have := toNat_le_of_le h2; have : ('9' : Char).toNat = 57 := by decide
    omega
  · have := toNat_le_of_le h2; have : ('f' : Char).toNat = 102 := by decide
    omega
  · have := toNat_le_of_le h2; have : ('F' : Char).toNat = 70 := by decide
    omega

structure TokOk (src : List Char) (t : Token) : Prop where
  bs : Boundary src t.start
  be : Boundary src t.stop
  lt : t.start < t.stop
  str : t.kind = .string → ∃ text, sliceBytes src t.start t.stop = some text ∧ 2 ≤ text.length

def DiagOk (src : List Char) (d : Diag) : Prop :=
  Boundary src d.start ∧ Boundary src d.stop ∧ d.start ≤ d.stop

/-- what the scanner state of `check_string` remembers about the characters already consumed -/
def CsInv : CsState → Nat → List Char → Prop
  | .normal, pos, consumed => utf8Len consumed = pos
  | .esc, pos, consumed => utf8Len consumed = pos ∧ ∃ pre, consumed = pre ++ ['\\']
  | .hex iu done, pos, consumed => utf8Len consumed = pos ∧
      ∃ pre ds, consumed = pre ++ '\\' :: 'u' :: ds ∧ utf8Len pre + 1 = iu ∧ utf8Len ds = done

theorem bnd_in_token {src dn text rest : List Char} (hsrc : src = dn ++ text ++ rest) {q q' : List Char}
    (hq : text = q ++ q') : Boundary src (utf8Len dn + utf8Len q) :=
  ⟨dn ++ q, q' ++ rest, by rw [hsrc, hq]; simp, by simp⟩

theorem checkStringGo_ok {src dn rest : List Char} :
    ∀ (todo : List Char) (st : CsState) (pos : Nat) (consumed : List Char),
      src = dn ++ (consumed ++ todo) ++ rest → CsInv st pos consumed →
      ∀ d ∈ checkStringGo (utf8Len dn) st pos todo, DiagOk src d
  | [], .normal, _, _, _, _ => by intro d hd; simp [checkStringGo] at hd
  | [], .esc, _, _, _, _ => by intro d hd; simp [checkStringGo] at hd
  | [], .hex iu done, pos, consumed, hsrc, hinv => by
    intro d hd
    simp only [checkStringGo, List.mem_singleton] at hd
    subst hd
    obtain ⟨hl, pre, ds, hc, hiu, hds⟩ := hinv
    have b1 := bnd_in_token (q := pre) (q' := '\\' :: 'u' :: ds) hsrc (by simp [hc])
    have b2 := bnd_in_token (q := consumed) (q' := []) hsrc (by simp)
    have hb : ('\\' : Char).utf8Size = 1 := by decide
    have hu : ('u' : Char).utf8Size = 1 := by decide
    have hcl : utf8Len consumed = utf8Len pre + 2 + done := by rw [hc]; simp [hb, hu]; omega
    refine ⟨?_, ?_, ?_⟩
    · show Boundary src (utf8Len dn + iu - 1)
      rw [show utf8Len dn + iu - 1 = utf8Len dn + utf8Len pre by omega]; exact b1
    · show Boundary src (utf8Len dn + iu + done + 1)
      rw [show utf8Len dn + iu + done + 1 = utf8Len dn + utf8Len consumed by omega]; exact b2
    · show utf8Len dn + iu - 1 ≤ utf8Len dn + iu + done + 1
      omega
  | c :: todo, .normal, pos, consumed, hsrc, hinv => by
    intro d hd
    have hl : utf8Len consumed = pos := hinv
    have hsrc' : src = dn ++ ((consumed ++ [c]) ++ todo) ++ rest := by rw [hsrc]; simp
    simp only [checkStringGo] at hd
    split at hd
    · rename_i hbs
      have : c = '\\' := by simpa using hbs
      subst this
      exact checkStringGo_ok todo .esc (pos + 1) (consumed ++ ['\\']) hsrc'
        ⟨by simp [hl]; decide, consumed, rfl⟩ d hd
    · split at hd
      · rename_i hctl
        have hsz : c.utf8Size = 1 := utf8Size_of_lt (by omega)
        rcases List.mem_cons.1 hd with rfl | hd
        · have b1 := bnd_in_token (q := consumed) (q' := c :: todo) hsrc rfl
          have b2 := bnd_in_token (q := consumed ++ [c]) (q' := todo) hsrc' rfl
          refine ⟨?_, ?_, ?_⟩
          · show Boundary src (utf8Len dn + pos); rw [← hl]; exact b1
          · show Boundary src (utf8Len dn + pos + 1)
            rw [show utf8Len dn + pos + 1 = utf8Len dn + utf8Len (consumed ++ [c]) by simp [hl, hsz]; omega]
            exact b2
          · show utf8Len dn + pos ≤ utf8Len dn + pos + 1; omega
        · exact checkStringGo_ok todo .normal (pos + c.utf8Size) (consumed ++ [c]) hsrc'
            (by show utf8Len (consumed ++ [c]) = _; simp [hl]) d hd
      · exact checkStringGo_ok todo .normal (pos + c.utf8Size) (consumed ++ [c]) hsrc'
          (by show utf8Len (consumed ++ [c]) = _; simp [hl]) d hd
  | e :: todo, .esc, pos, consumed, hsrc, hinv => by
    intro d hd
    obtain ⟨hl, pre, hc⟩ := hinv
    have hb : ('\\' : Char).utf8Size = 1 := by decide
    have hpos : pos = utf8Len pre + 1 := by rw [← hl, hc]; simp [hb]
    have hsrc' : src = dn ++ ((consumed ++ [e]) ++ todo) ++ rest := by rw [hsrc]; simp
    have hn : CsInv .normal (pos + e.utf8Size) (consumed ++ [e]) := by
      show utf8Len (consumed ++ [e]) = _; simp [hl]
    simp only [checkStringGo] at hd
    split at hd
    · exact checkStringGo_ok todo .normal _ _ hsrc' hn d hd
    · split at hd
      · rename_i hu
        have : e = 'u' := by simpa using hu
        subst this
        exact checkStringGo_ok todo (.hex pos 0) (pos + 1) (consumed ++ ['u']) hsrc'
          ⟨by simp [hl]; decide, pre, [], by simp [hc], by omega, rfl⟩ d hd
      · rcases List.mem_cons.1 hd with rfl | hd
        · have b1 := bnd_in_token (q := pre) (q' := '\\' :: e :: todo) hsrc (by simp [hc])
          have b2 := bnd_in_token (q := consumed ++ [e]) (q' := todo) hsrc' rfl
          refine ⟨?_, ?_, ?_⟩
          · show Boundary src (utf8Len dn + pos - 1)
            rw [show utf8Len dn + pos - 1 = utf8Len dn + utf8Len pre by omega]; exact b1
          · show Boundary src (utf8Len dn + pos + e.utf8Size)
            rw [show utf8Len dn + pos + e.utf8Size = utf8Len dn + utf8Len (consumed ++ [e]) by simp [hl]; omega]
            exact b2
          · show utf8Len dn + pos - 1 ≤ utf8Len dn + pos + e.utf8Size; omega
        · exact checkStringGo_ok todo .normal _ _ hsrc' hn d hd
  | h :: todo, .hex iu done, pos, consumed, hsrc, hinv => by
    intro d hd
    obtain ⟨hl, pre, ds, hc, hiu, hds⟩ := hinv
    have hb : ('\\' : Char).utf8Size = 1 := by decide
    have hu : ('u' : Char).utf8Size = 1 := by decide
    have hcl : utf8Len consumed = utf8Len pre + 2 + done := by rw [hc]; simp [hb, hu]; omega
    have hsrc' : src = dn ++ ((consumed ++ [h]) ++ todo) ++ rest := by rw [hsrc]; simp
    have hn : CsInv .normal (pos + h.utf8Size) (consumed ++ [h]) := by
      show utf8Len (consumed ++ [h]) = _; simp [hl]
    simp only [checkStringGo] at hd
    split at hd
    · rename_i hhex
      have hsz := isHexC_size hhex
      split at hd
      · exact checkStringGo_ok todo .normal _ _ hsrc' hn d hd
      · exact checkStringGo_ok todo (.hex iu (done + 1)) _ (consumed ++ [h]) hsrc'
          ⟨by simp [hl], pre, ds ++ [h], by simp [hc], hiu, by simp [hds, hsz]⟩ d hd
    · rcases List.mem_cons.1 hd with rfl | hd
      · have b1 := bnd_in_token (q := pre) (q' := '\\' :: 'u' :: ds ++ h :: todo) hsrc (by simp [hc])
        have b2 := bnd_in_token (q := consumed) (q' := h :: todo) hsrc rfl
        refine ⟨?_, ?_, ?_⟩
        · show Boundary src (utf8Len dn + iu - 1)
          rw [show utf8Len dn + iu - 1 = utf8Len dn + utf8Len pre by omega]; exact b1
        · show Boundary src (utf8Len dn + iu + done + 1)
          rw [show utf8Len dn + iu + done + 1 = utf8Len dn + utf8Len consumed by omega]; exact b2
        · show utf8Len dn + iu - 1 ≤ utf8Len dn + iu + done + 1; omega
      · exact checkStringGo_ok todo .normal _ _ hsrc' hn d hd

theorem checkString_ok {src dn text rest : List Char} (hsrc : src = dn ++ text ++ rest) :
    ∀ d ∈ checkString (utf8Len dn) text, DiagOk src d :=
  checkStringGo_ok text .normal 0 [] (by simpa using hsrc) (by show utf8Len [] = 0; rfl)

structure LexOk (src : List Char) (r : LexResult) : Prop where
  toks : ∀ t ∈ r.tokens, TokOk src t
  chain : r.tokens.Pairwise (fun a b => a.stop ≤ b.start)
  diags : ∀ d ∈ r.diags, DiagOk src d

theorem lexLoop_ok (src : List Char) :
    ∀ (fuel : Nat) (cs : List Char) (pos : Nat) (nb nk : Int) (toks : List Token) (diags : List Diag)
      (dn : List Char), src = dn ++ cs → utf8Len dn = pos →
      (∀ t ∈ toks, TokOk src t ∧ t.stop ≤ pos) → toks.Pairwise (fun a b => b.stop ≤ a.start) →
      (∀ d ∈ diags, DiagOk src d) → LexOk src (lexLoop fuel cs pos nb nk toks diags) := by
  intro fuel
  induction fuel with
  | zero =>
    intro cs pos nb nk toks diags dn _ _ ht hp hd
    simp only [lexLoop]
    exact ⟨fun t h => (ht t (by simpa using h)).1, by rw [List.pairwise_reverse]; exact hp,
      fun d h => hd d (by simpa using h)⟩
  | succ fuel ih =>
    intro cs pos nb nk toks diags dn hsrc hpos ht hp hd
    have fin : LexOk src ⟨toks.reverse, diags.reverse⟩ :=
      ⟨fun t h => (ht t (by simpa using h)).1, by rw [List.pairwise_reverse]; exact hp,
        fun d h => hd d (by simpa using h)⟩
    cases cs with
    | nil => simpa only [lexLoop] using fin
    | cons c cs =>
      simp only [lexLoop]
      obtain ⟨hsplit, hne, hstr⟩ := lexOne_spec c cs
      generalize hr : lexOne (c :: cs) = r at hsplit hne hstr
      obtain ⟨kind, dk, text, rest⟩ := r
      simp only at hsplit hne hstr ⊢
      have hsrc' : src = dn ++ text ++ rest := by rw [hsrc, ← hsplit]; simp
      have hlen := utf8Len_pos_of_ne_nil hne
      have b1 : Boundary src pos := ⟨dn, c :: cs, hsrc, hpos⟩
      have b2 : Boundary src (pos + utf8Len text) := ⟨dn ++ text, rest, hsrc', by simp [hpos]⟩
      have hsl : sliceBytes src pos (pos + utf8Len text) = some text := by
        rw [hsrc', ← hpos]; exact sliceBytes_of_split dn text rest
      have hold : ∀ t ∈ toks, TokOk src t ∧ t.stop ≤ pos + utf8Len text :=
        fun t h => ⟨(ht t h).1, by have := (ht t h).2; omega⟩
      have hnew : ∀ k, (k = Tok.string → 2 ≤ text.length) →
          ∀ t ∈ (⟨k, pos, pos + utf8Len text⟩ : Token) :: toks, TokOk src t ∧ t.stop ≤ pos + utf8Len text := by
        intro k hk t h
        rcases List.mem_cons.1 h with rfl | h
        · exact ⟨⟨b1, b2, by show pos < pos + utf8Len text; omega, fun e => ⟨text, hsl, hk e⟩⟩, Nat.le_refl _⟩
        · exact hold t h
      have hchain : ∀ k, ((⟨k, pos, pos + utf8Len text⟩ : Token) :: toks).Pairwise (fun a b => b.stop ≤ a.start) := by
        intro k
        rw [List.pairwise_cons]
        exact ⟨fun t h => (ht t h).2, hp⟩
      cases dk with
      | some dkind =>
        simp only
        refine ih rest _ nb nk _ _ (dn ++ text) (by rw [hsrc']) (by simp [hpos])
          (hnew .error (by intro e; cases e)) (hchain .error) ?_
        intro d h
        rcases List.mem_cons.1 h with rfl | h
        · exact ⟨b1, b2, by show pos ≤ pos + utf8Len text; omega⟩
        · exact hd d h
      | none =>
        simp only
        have hd1 : ∀ d ∈ (if kind == .string then (checkString pos text).reverse ++ diags else diags),
            DiagOk src d := by
          intro d h
          split at h
          · rcases List.mem_append.1 h with h | h
            · rw [← hpos] at h; exact checkString_ok hsrc' d (by simpa using h)
            · exact hd d h
          · exact hd d h
        generalize (if kind == .string then (checkString pos text).reverse ++ diags else diags) = diags1 at hd1 ⊢
        generalize (if kind == Tok.lbrace then nb + 1 else if kind == Tok.rbrace then nb - 1 else nb) = nb'
        generalize (if kind == Tok.lbrak then nk + 1 else if kind == Tok.rbrak then nk - 1 else nk) = nk'
        split
        · refine ⟨fun t h => (ht t (by simpa using h)).1, by rw [List.pairwise_reverse]; exact hp, ?_⟩
          intro d h
          rw [List.mem_reverse] at h
          rcases List.mem_cons.1 h with rfl | h
          · exact ⟨b1, b2, by show pos ≤ pos + utf8Len text; omega⟩
          · exact hd1 d h
        · exact ih rest _ _ _ _ _ (dn ++ text) (by rw [hsrc']) (by simp [hpos])
            (hnew kind hstr) (hchain kind) hd1

theorem tokenize_ok (src : List Char) : LexOk src (tokenize src) :=
  lexLoop_ok src src.length src 0 0 0 [] [] [] (by simp) rfl (by simp) List.Pairwise.nil (by simp)

/-- token kinds: never `EOF`; an `Error` token only together with a diagnostic -/
theorem lexLoop_kinds :
    ∀ (fuel : Nat) (cs : List Char) (pos : Nat) (nb nk : Int) (toks : List Token) (diags : List Diag),
      (∀ t ∈ toks, t.kind ≠ .eof) → ((∃ t ∈ toks, t.kind = .error) → diags ≠ []) →
      let r := lexLoop fuel cs pos nb nk toks diags
      (∀ t ∈ r.tokens, t.kind ≠ .eof) ∧ ((∃ t ∈ r.tokens, t.kind = .error) → r.diags ≠ []) ∧
        (diags ≠ [] → r.diags ≠ []) := by
  intro fuel
  induction fuel with
  | zero =>
    intro cs pos nb nk toks diags h1 h2
    simp only [lexLoop]
    exact ⟨fun t h => h1 t (by simpa using h), fun ⟨t, ht, hk⟩ => by simpa using h2 ⟨t, by simpa using ht, hk⟩,
      fun h => by simpa using h⟩
  | succ fuel ih =>
    intro cs pos nb nk toks diags h1 h2
    have fin : (∀ t ∈ (⟨toks.reverse, diags.reverse⟩ : LexResult).tokens, t.kind ≠ .eof) ∧
        ((∃ t ∈ (⟨toks.reverse, diags.reverse⟩ : LexResult).tokens, t.kind = .error) →
          (⟨toks.reverse, diags.reverse⟩ : LexResult).diags ≠ []) ∧
        (diags ≠ [] → (⟨toks.reverse, diags.reverse⟩ : LexResult).diags ≠ []) :=
      ⟨fun t h => h1 t (by simpa using h), fun ⟨t, ht, hk⟩ => by simpa using h2 ⟨t, by simpa using ht, hk⟩,
        fun h => by simpa using h⟩
    cases cs with
    | nil => simpa only [lexLoop] using fin
    | cons c cs =>
      simp only [lexLoop]
      obtain ⟨k1, k2, k3⟩ := lexOne_kind c cs
      generalize lexOne (c :: cs) = r at k1 k2 k3
      obtain ⟨kind, dk, text, rest⟩ := r
      simp only at k1 k2 k3 ⊢
      cases dk with
      | some dkind =>
        simp only
        have := ih rest (pos + utf8Len text) nb nk (⟨.error, pos, pos + utf8Len text⟩ :: toks)
          (⟨dkind, pos, pos + utf8Len text⟩ :: diags)
          (by intro t ht; rcases List.mem_cons.1 ht with rfl | ht
              · simp
              · exact h1 t ht)
          (by intro _; simp)
        exact ⟨this.1, this.2.1, fun _ => this.2.2 (by simp)⟩
      | none =>
        simp only
        have hk2 := k2 rfl
        have hd1 : diags ≠ [] → (if kind == .string then (checkString pos text).reverse ++ diags else diags) ≠ [] := by
          intro h; split <;> simp [h]
        generalize (if kind == .string then (checkString pos text).reverse ++ diags else diags) = diags1 at hd1 ⊢
        generalize (if kind == Tok.lbrace then nb + 1 else if kind == Tok.rbrace then nb - 1 else nb) = nb'
        generalize (if kind == Tok.lbrak then nk + 1 else if kind == Tok.rbrak then nk - 1 else nk) = nk'
        split
        · exact ⟨fun t h => h1 t (by simpa using h), fun _ => by simp, fun _ => by simp⟩
        · have := ih rest (pos + utf8Len text) nb' nk' (⟨kind, pos, pos + utf8Len text⟩ :: toks) diags1
            (by intro t ht; rcases List.mem_cons.1 ht with rfl | ht
                · exact k1
                · exact h1 t ht)
            (by rintro ⟨t, ht, hk⟩
                rcases List.mem_cons.1 ht with rfl | ht
                · exact absurd hk hk2
                · exact hd1 (h2 ⟨t, ht, hk⟩))
          exact ⟨this.1, this.2.1, fun h => this.2.2 (hd1 h)⟩

theorem tokenize_kinds (src : List Char) :
    (∀ t ∈ (tokenize src).tokens, t.kind ≠ .eof) ∧
    ((tokenize src).diags = [] → ∀ t ∈ (tokenize src).tokens, t.kind ≠ .error) := by
  have := lexLoop_kinds src.length src 0 0 0 [] [] (by simp) (by simp)
  refine ⟨this.1, fun hd t ht hk => this.2.1 ⟨t, ht, hk⟩ hd⟩

end ShapeVerif
