/-
Basic facts about the reference semantics `admits`.
-/
import ShapeVerif.Lemmas.Containers
import ShapeVerif.Ref.Sem
import ShapeVerif.Model.Subset
namespace ShapeVerif
open Shape

theorem admitsAny_iff {vs : List Shape} {d : Doc} :
    admitsAny vs d = true ↔ ∃ v ∈ vs, admits v d = true := by
  induction vs with
  | nil => simp [admitsAny]
  | cons v vs ih => simp [admitsAny, ih]

theorem absentOk_iff {c : Members} {ms : List (String × Doc)} :
    absentOk c ms = true ↔ ∀ kv ∈ c, hasMember kv.1 ms = true ∨ admits kv.2 .null = true := by
  induction c with
  | nil => simp [absentOk]
  | cons kv c ih =>
    obtain ⟨k, s⟩ := kv
    simp [absentOk, ih]

theorem admits_null_of_isOptional {s : Shape} (h : s.isOptional = true) : admits s .null = true := by
  cases s <;> simp_all [admits, isOptional, Doc.isNull]

theorem admits_null_null : admits .null .null = true := by simp [admits, Doc.isNull]

/-- turning the top-level flag on never removes a document -/
theorem admits_asOptional {s : Shape} {d : Doc} (h : admits s d = true) :
    admits s.asOptional d = true := by
  cases s <;> cases d <;> simp_all [admits, asOptional, withOptional, Doc.isNull]

theorem admits_asOptional_null (s : Shape) : admits s.asOptional .null = true := by
  cases s <;> simp [admits, asOptional, withOptional, Doc.isNull]

/-- with the flag off, exactly `null` may be lost (and only if no variant admits it) -/
theorem admits_asNonOptional {s : Shape} {d : Doc} (h : admits s d = true) (hd : d.isNull = false) :
    admits s.asNonOptional d = true := by
  cases s <;> cases d <;> simp_all [admits, asNonOptional, withOptional, Doc.isNull]

theorem admits_of_asNonOptional {s : Shape} {d : Doc} (h : admits s.asNonOptional d = true) :
    admits s d = true := by
  cases s <;> cases d <;> simp_all [admits, asNonOptional, withOptional, Doc.isNull]

theorem lookupSubset_of_mem {oc : Members} {k : String} {s s' : Shape}
    (hs : sortedKeys oc = true) (hm : (k, s') ∈ oc) : lookupSubset k s oc = isSubset s s' := by
  induction oc with
  | nil => cases hm
  | cons kv oc ih =>
    obtain ⟨k0, v0⟩ := kv
    rcases List.mem_cons.1 hm with h | h
    · cases h; simp [lookupSubset]
    · have hne : k ≠ k0 := sortedKeys_head_ne hs (k, s') h
      have : (k == k0) = false := by simp [hne]
      simp only [lookupSubset, this]
      exact ih (sortedKeys_tail hs) h

theorem lookupSubset_true {oc : Members} {k : String} {s : Shape} (h : lookupSubset k s oc = true) :
    ∃ s', (k, s') ∈ oc ∧ isSubset s s' = true := by
  induction oc with
  | nil => simp [lookupSubset] at h
  | cons kv oc ih =>
    obtain ⟨k0, v0⟩ := kv
    simp only [lookupSubset] at h
    split at h
    · rename_i heq
      have : k = k0 := by simpa using heq
      subst this
      exact ⟨v0, by simp, h⟩
    · obtain ⟨s', hm, hs⟩ := ih h
      exact ⟨s', List.mem_cons_of_mem _ hm, hs⟩

theorem admitsKey_of_mem {c : Members} {k : String} {s : Shape} {x : Doc}
    (hs : sortedKeys c = true) (hm : (k, s) ∈ c) : admitsKey k x c = admits s x := by
  induction c with
  | nil => cases hm
  | cons kv c ih =>
    obtain ⟨k0, v0⟩ := kv
    rcases List.mem_cons.1 hm with h | h
    · cases h; simp [admitsKey]
    · have hne : k ≠ k0 := sortedKeys_head_ne hs (k, s) h
      have : (k == k0) = false := by simp [hne]
      simp only [admitsKey, this]
      exact ih (sortedKeys_tail hs) h

theorem admitsKey_true {c : Members} {k : String} {x : Doc} (h : admitsKey k x c = true) :
    ∃ s, (k, s) ∈ c ∧ admits s x = true := by
  induction c with
  | nil => simp [admitsKey] at h
  | cons kv c ih =>
    obtain ⟨k0, v0⟩ := kv
    simp only [admitsKey] at h
    split at h
    · rename_i heq
      have : k = k0 := by simpa using heq
      subst this
      exact ⟨v0, by simp, h⟩
    · obtain ⟨s', hm, hs⟩ := ih h
      exact ⟨s', List.mem_cons_of_mem _ hm, hs⟩

theorem anyNullOkSuperset_iff {s : Shape} {nullOk : Bool} {ws : List Shape} :
    anyNullOkSuperset s nullOk ws = true ↔
      ∃ v ∈ ws, (nullOk || v.isOptional) = true ∧ isSubset s v = true := by
  induction ws with
  | nil => simp [anyNullOkSuperset]
  | cons w ws ih => simp [anyNullOkSuperset, ih]

theorem wfList_mem {l : List Shape} (h : wfList l = true) : ∀ s ∈ l, s.wf = true := by
  induction l with
  | nil => simp
  | cons a l ih =>
    simp [wfList] at h
    intro s hs
    rcases List.mem_cons.1 hs with rfl | hs
    · exact h.1
    · exact ih h.2 s hs

theorem wfMembers_mem {l : Members} (h : wfMembers l = true) : ∀ kv ∈ l, kv.2.wf = true := by
  induction l with
  | nil => simp
  | cons a l ih =>
    obtain ⟨k, v⟩ := a
    simp [wfMembers] at h
    intro s hs
    rcases List.mem_cons.1 hs with rfl | hs
    · exact h.1
    · exact ih h.2 s hs

end ShapeVerif

namespace ShapeVerif
open Shape

/-! unfolding lemmas for `admits`, one per (shape constructor, document constructor) of interest -/
theorem admits_array_arr (t : Shape) (o : Bool) (xs : List Doc) :
    admits (.array t o) (.arr xs) = xs.all (fun x => admits t x) := by simp [admits]
theorem admits_array_null (t : Shape) (o : Bool) : admits (.array t o) .null = o := by simp [admits]
theorem admits_tuple_arr (es : List Shape) (o : Bool) (xs : List Doc) :
    admits (.tuple es o) (.arr xs) = admitsZip es xs := by simp [admits]
theorem admits_tuple_null (es : List Shape) (o : Bool) : admits (.tuple es o) .null = o := by simp [admits]
theorem admits_object_obj (c : Members) (o : Bool) (ms : List (String × Doc)) :
    admits (.object c o) (.obj ms) = (ms.all (fun kv => admitsKey kv.1 kv.2 c) && absentOk c ms) := by
  simp [admits]
theorem admits_object_null (c : Members) (o : Bool) : admits (.object c o) .null = o := by simp [admits]
theorem admits_oneOf (vs : List Shape) (o : Bool) (d : Doc) :
    admits (.oneOf vs o) d = (admitsAny vs d || (o && d.isNull)) := by simp [admits]

/-- a container shape admits only `null` and documents of its own kind -/
theorem admits_array_cases {t : Shape} {o : Bool} {d : Doc} (h : admits (.array t o) d = true) :
    (d = .null ∧ o = true) ∨ ∃ xs, d = .arr xs ∧ (xs.all fun x => admits t x) = true := by
  cases d <;> simp [admits] at h
  · exact Or.inl ⟨rfl, h⟩
  · exact Or.inr ⟨_, rfl, by simpa using h⟩
theorem admits_tuple_cases {es : List Shape} {o : Bool} {d : Doc} (h : admits (.tuple es o) d = true) :
    (d = .null ∧ o = true) ∨ ∃ xs, d = .arr xs ∧ admitsZip es xs = true := by
  cases d <;> simp [admits] at h
  · exact Or.inl ⟨rfl, h⟩
  · exact Or.inr ⟨_, rfl, h⟩
theorem admits_object_cases {c : Members} {o : Bool} {d : Doc} (h : admits (.object c o) d = true) :
    (d = .null ∧ o = true) ∨ ∃ ms, d = .obj ms ∧
      (ms.all (fun kv => admitsKey kv.1 kv.2 c)) = true ∧ absentOk c ms = true := by
  cases d
  case null => simp [admits] at h; exact Or.inl ⟨rfl, h⟩
  case obj ms =>
    rw [admits_object_obj, Bool.and_eq_true] at h
    exact Or.inr ⟨ms, rfl, h⟩
  all_goals simp [admits] at h

end ShapeVerif
