/-
One lexer step on a valid lexeme (completeness, step level).
-/
import ShapeVerif.Lemmas.LexComplete
namespace ShapeVerif

theorem takeWhileC_prefix (p : Char → Bool) : ∀ (l rest : List Char), (∀ x ∈ l, p x = true) →
    (∀ c tl, rest = c :: tl → p c = false) → takeWhileC p (l ++ rest) = (l, rest)
  | [], rest, _, hr => by
    cases rest with
    | nil => rfl
    | cons c tl => simp [takeWhileC, hr c tl rfl]
  | a :: l, rest, hl, hr => by
    have ha := hl a (by simp)
    have ih := takeWhileC_prefix p l rest (fun x hx => hl x (by simp [hx])) hr
    simp [takeWhileC, ha, ih]

/-- scanning a closed string followed by anything stops at the same closing quote -/
theorem scanString_extend (n : Nat) : ∀ (r t rest : List Char), r.length ≤ n → scanString r = (t, [], true) →
    scanString (r ++ rest) = (t, rest, true) := by
  induction n with
  | zero =>
    intro r t rest hl h
    cases r with
    | nil => simp [scanString] at h
    | cons c r => simp at hl
  | succ n ih =>
    intro r t rest hl h
    cases r with
    | nil => simp [scanString] at h
    | cons c r1 =>
      by_cases hq : c = '"'
      · subst hq
        rw [scanString_quote] at h
        simp only [Prod.mk.injEq] at h
        obtain ⟨rfl, rfl, _⟩ := h
        exact scanString_quote _
      by_cases hb : c = '\\'
      · subst hb
        cases r1 with
        | nil => simp [scanString] at h
        | cons e r2 =>
          rw [scanString_escape] at h
          simp only [Prod.mk.injEq] at h
          obtain ⟨rfl, h2, h3⟩ := h
          have := ih r2 (scanString r2).1 rest (by simp at hl; omega)
            (by rw [← h2, ← h3])
          simp only [List.cons_append]
          rw [scanString_escape, this]
      · rw [scanString_ordinary hq hb] at h
        simp only [Prod.mk.injEq] at h
        obtain ⟨rfl, h2, h3⟩ := h
        have := ih r1 (scanString r1).1 rest (by simp at hl; omega) (by rw [← h2, ← h3])
        simp only [List.cons_append]
        rw [scanString_ordinary hq hb, this]

/-- the kinds the grammar sees -/
def isGrammarKind (k : Tok) : Bool :=
  k == .lbrace || k == .rbrace || k == .lbrak || k == .rbrak || k == .comma || k == .colon ||
  k == .string || k == .number || k == .true_ || k == .false_ || k == .null_

def needsFollow (k : Tok) : Bool := k == .number || k == .true_ || k == .false_ || k == .null_

theorem number_head {n : List Char} (h : Rfc.number n = some (n, [])) :
    ∃ c tl, n = c :: tl ∧ (c = '-' ∨ isDigitC c = true) := by
  unfold Rfc.number at h
  cases hi : Rfc.intPart (Rfc.minus n).2 with
  | none => simp [hi] at h
  | some ir =>
    obtain ⟨i, c2⟩ := ir
    cases n with
    | nil => simp [Rfc.minus, Rfc.intPart] at hi
    | cons c tl =>
      refine ⟨c, tl, rfl, ?_⟩
      by_cases hc : c = '-'
      · exact .inl hc
      · right
        have h1 : Rfc.minus (c :: tl) = ([], c :: tl) := by
          unfold Rfc.minus
          split
          · rename_i heq; simp only [List.cons.injEq] at heq; exact absurd heq.1 hc
          · rfl
        rw [h1] at hi
        obtain ⟨ia, ib⟩ := intPart_cases hi
        rcases ib with rfl | ⟨c', ds, h19, _, rfl, _⟩
        · simp only [List.cons_append, List.nil_append, List.cons.injEq] at ia
          rw [← ia.1]; decide
        · simp only [List.cons_append, List.cons.injEq] at ia
          rw [← ia.1]
          simp only [isDigit19C, Bool.and_eq_true, decide_eq_true_eq] at h19
          simp only [isDigitC, Bool.and_eq_true, decide_eq_true_eq]
          refine ⟨?_, h19.2⟩
          have := h19.1
          exact Char.le_trans (by decide) this

/-- **one step on a valid grammar lexeme** -/
theorem lexOne_complete (k : Tok) (txt rest : List Char) (pos : Nat) (hk : isGrammarKind k = true)
    (hv : lexemeOk k txt = true) (hf : needsFollow k = true → ValueFollow rest) :
    ∃ c cs, txt ++ rest = c :: cs ∧ lexOne (c :: cs) = (k, none, txt, rest) ∧
      (k = .string → checkString pos txt = []) := by
  cases k with
  | eof => simp [isGrammarKind] at hk
  | error => simp [isGrammarKind] at hk
  | ws => simp [isGrammarKind] at hk
  | nl => simp [isGrammarKind] at hk
  | lbrace =>
    have : txt = ['{'] := by simpa [lexemeOk] using hv
    subst this
    exact ⟨'{', rest, rfl, by simp [lexOne, isWsChar], by intro h; cases h⟩
  | rbrace =>
    have : txt = ['}'] := by simpa [lexemeOk] using hv
    subst this
    exact ⟨'}', rest, rfl, by simp [lexOne, isWsChar], by intro h; cases h⟩
  | lbrak =>
    have : txt = ['['] := by simpa [lexemeOk] using hv
    subst this
    exact ⟨'[', rest, rfl, by simp [lexOne, isWsChar], by intro h; cases h⟩
  | rbrak =>
    have : txt = [']'] := by simpa [lexemeOk] using hv
    subst this
    exact ⟨']', rest, rfl, by simp [lexOne, isWsChar], by intro h; cases h⟩
  | comma =>
    have : txt = [','] := by simpa [lexemeOk] using hv
    subst this
    exact ⟨',', rest, rfl, by simp [lexOne, isWsChar], by intro h; cases h⟩
  | colon =>
    have : txt = [':'] := by simpa [lexemeOk] using hv
    subst this
    exact ⟨':', rest, rfl, by simp [lexOne, isWsChar], by intro h; cases h⟩
  | true_ =>
    have : txt = ['t', 'r', 'u', 'e'] := by simpa [lexemeOk] using hv
    subst this
    have htw := takeWhileC_prefix isAlnumC ['r', 'u', 'e'] rest (by decide) (follow_not_alnum (hf rfl))
    refine ⟨'t', 'r' :: 'u' :: 'e' :: rest, rfl, ?_, by intro h; cases h⟩
    have htw' : takeWhileC isAlnumC ('r' :: 'u' :: 'e' :: rest) = (['r', 'u', 'e'], rest) := htw
    simp [lexOne, isWsChar, isAlphaC, htw']
  | false_ =>
    have : txt = ['f', 'a', 'l', 's', 'e'] := by simpa [lexemeOk] using hv
    subst this
    have htw := takeWhileC_prefix isAlnumC ['a', 'l', 's', 'e'] rest (by decide) (follow_not_alnum (hf rfl))
    refine ⟨'f', 'a' :: 'l' :: 's' :: 'e' :: rest, rfl, ?_, by intro h; cases h⟩
    have htw' : takeWhileC isAlnumC ('a' :: 'l' :: 's' :: 'e' :: rest) = (['a', 'l', 's', 'e'], rest) := htw
    simp [lexOne, isWsChar, isAlphaC, htw']
  | null_ =>
    have : txt = ['n', 'u', 'l', 'l'] := by simpa [lexemeOk] using hv
    subst this
    have htw := takeWhileC_prefix isAlnumC ['u', 'l', 'l'] rest (by decide) (follow_not_alnum (hf rfl))
    refine ⟨'n', 'u' :: 'l' :: 'l' :: rest, rfl, ?_, by intro h; cases h⟩
    have htw' : takeWhileC isAlnumC ('u' :: 'l' :: 'l' :: rest) = (['u', 'l', 'l'], rest) := htw
    simp [lexOne, isWsChar, isAlphaC, htw']
  | number =>
    have hnum : Rfc.number txt = some (txt, []) := by simpa [lexemeOk] using hv
    obtain ⟨c, tl, rfl, hc⟩ := number_head hnum
    have hsc := number_complete hnum (hf rfl)
    refine ⟨c, tl ++ rest, rfl, ?_, by intro h; cases h⟩
    have hsc' : scanNumber (c :: (tl ++ rest)) = some (c :: tl, rest) := hsc
    rcases hc with rfl | hd
    · simp [lexOne, isWsChar, isAlphaC, hsc']
    · have hfacts : isWsChar c = false ∧ (c == '\n') = false ∧ (c == '\r') = false ∧ (c == '{') = false ∧
          (c == '}') = false ∧ (c == '[') = false ∧ (c == ']') = false ∧ (c == ',') = false ∧ (c == ':') = false ∧
          (c == '"') = false ∧ isAlphaC c = false := by
        simp only [isDigitC, Bool.and_eq_true, decide_eq_true_eq] at hd
        have h1 := toNat_le_of_le hd.1
        have h2 := toNat_le_of_le hd.2
        have e0 : ('0' : Char).toNat = 48 := by decide
        have e9 : ('9' : Char).toNat = 57 := by decide
        have key : ∀ x : Char, (x.toNat < 48 ∨ 57 < x.toNat) → (c == x) = false := by
          intro x hx
          simp only [beq_eq_false_iff_ne, ne_eq]
          rintro rfl; omega
        refine ⟨?_, key _ (by decide), key _ (by decide), key _ (by decide), key _ (by decide), key _ (by decide),
          key _ (by decide), key _ (by decide), key _ (by decide), key _ (by decide), ?_⟩
        · simp only [isWsChar, Bool.or_eq_false_iff]
          exact ⟨key _ (by decide), key _ (by decide)⟩
        · simp only [isAlphaC, Bool.or_eq_false_iff, Bool.and_eq_false_iff, decide_eq_false_iff_not]
          constructor
          · left; intro h; have := toNat_le_of_le h; have : ('a' : Char).toNat = 97 := by decide
            omega
          · left; intro h; have := toNat_le_of_le h; have : ('A' : Char).toNat = 65 := by decide
            omega
      obtain ⟨f1, f2, f3, f4, f5, f6, f7, f8, f9, f10, f11⟩ := hfacts
      simp [lexOne, f1, f2, f3, f4, f5, f6, f7, f8, f9, f10, f11, hsc']
  | string =>
    simp only [lexemeOk] at hv
    cases txt with
    | nil => simp at hv
    | cons q r =>
      by_cases hq : q = '"'
      · subst hq
        simp only at hv
        cases hs : Rfc.stringBody r with
        | none => simp [hs] at hv
        | some br =>
          obtain ⟨b, rr⟩ := br
          cases rr with
          | cons _ _ => simp [hs] at hv
          | nil =>
            obtain ⟨i1, i2⟩ := string_complete_aux pos r.length r b [] (Nat.le_refl _) hs
            have hext := scanString_extend r.length r _ rest (Nat.le_refl _) i1
            have hr : r = b ++ ['"'] := by
              have := scanString_append r
              rw [i1] at this; simpa using this.symm
            refine ⟨'"', r ++ rest, rfl, ?_, ?_⟩
            · have hl : lexOne ('"' :: (r ++ rest)) =
                  (if (scanString (r ++ rest)).2.2 then (.string, none, '"' :: (scanString (r ++ rest)).1, (scanString (r ++ rest)).2.1)
                   else (.error, some .unterminated, '"' :: (scanString (r ++ rest)).1, (scanString (r ++ rest)).2.1)) := by
                simp [lexOne, isWsChar]
              rw [hl, hext]
              simp [hr]
            · intro _
              have : checkString pos ('"' :: r) = checkStringGo pos .normal 1 r := by
                simp [checkString, checkStringGo]
                rfl
              rw [this, hr]; exact i2 1
      · exfalso
        revert hv
        split
        · rename_i heq; simp only [List.cons.injEq] at heq; exact absurd heq.1 hq
        · simp

end ShapeVerif
