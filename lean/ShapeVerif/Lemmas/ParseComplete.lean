/-
Completeness of the recovering parser in clean mode: on a phrase of the token grammar it reports
nothing (so `rules_sound` applies and describes what it builds).
-/
import ShapeVerif.Lemmas.ParseSound
namespace ShapeVerif
open Shape

theorem toks_of_sig {s : PState} (h : CleanSt s) {t : Token} {rest : List Token} (hs : sig s.toks = t :: rest) :
    ∃ ts, s.toks = t :: ts := by
  cases ht : s.toks with
  | nil => rw [ht] at hs; simp [sig] at hs
  | cons a ts =>
    have hns := h.head a ts ht
    rw [ht] at hs
    simp only [sig, List.filter_cons, hns, Bool.not_false, if_true, List.cons.injEq] at hs
    exact ⟨ts, by rw [hs.1]⟩

theorem current_of_sig {s : PState} (h : CleanSt s) {t : Token} {rest : List Token} (hs : sig s.toks = t :: rest) :
    s.current = t.kind := by
  obtain ⟨ts, ht⟩ := toks_of_sig h hs
  rw [h.cur, ht]; rfl

theorem current_of_sig_nil {s : PState} (h : CleanSt s) (hs : sig s.toks = []) : s.current = .eof := by
  cases ht : s.toks with
  | nil => rw [h.cur, ht]; rfl
  | cons a ts =>
    have hns := h.head a ts ht
    rw [ht] at hs
    simp [sig, hns] at hs

/-- `expect` succeeds on the token the grammar announces -/
theorem expect_complete {s : PState} (h : CleanSt s) {t : Token} {rest : List Token} {k : Tok}
    (hs : sig s.toks = t :: rest) (hk : t.kind = k) (hk0 : k ≠ .eof) :
    TokStep s (s.expect k) k ∧ sig (s.expect k).1.toks = rest := by
  have hcur := current_of_sig h hs
  have hd : (s.expect k).1.diags = s.diags := by
    unfold PState.expect
    simp only [hcur, hk, beq_self_eq_true, if_true]
    unfold PState.advance
    split <;> rfl
  have st := expect_step h k hk0 hd
  obtain ⟨t', ts, sk, ht, _, _, _, hsig⟩ := st.tok
  refine ⟨st, ?_⟩
  rw [hs] at hsig
  simp only [List.cons.injEq] at hsig
  exact hsig.2.symm

theorem first_of_value {key : Token → String} {ph : List Token} {d : Doc} (h : TValue key ph d) :
    ∃ t rest, ph = t :: rest ∧ isValueStart t.kind = true := by
  cases h with
  | null hk => exact ⟨_, [], rfl, by rw [hk]; rfl⟩
  | tru hk => exact ⟨_, [], rfl, by rw [hk]; rfl⟩
  | fls hk => exact ⟨_, [], rfl, by rw [hk]; rfl⟩
  | num hk => exact ⟨_, [], rfl, by rw [hk]; rfl⟩
  | str hk => exact ⟨_, [], rfl, by rw [hk]; rfl⟩
  | arrE hl hr => exact ⟨_, _, rfl, by rw [hl]; rfl⟩
  | arr hl hr he => exact ⟨_, _, rfl, by rw [hl]; rfl⟩
  | objE hl hr => exact ⟨_, _, rfl, by rw [hl]; rfl⟩
  | obj hl hr hm => exact ⟨_, _, rfl, by rw [hl]; rfl⟩

theorem elems_split {key : Token → String} : ∀ {ts : List Token} {xs : List Doc}, TElems key ts xs →
    ∃ ts1 x more xs', ts = ts1 ++ more ∧ xs = x :: xs' ∧ TValue key ts1 x ∧ TMoreElems key more xs'
  | _, _, .one hv => ⟨_, _, [], [], by simp, rfl, hv, .nil⟩
  | _, _, @TElems.cons _ c ts rest x xs hc hv hrest => by
    obtain ⟨ts1, x', more, xs', e1, e2, h1, h2⟩ := elems_split hrest
    exact ⟨ts, x, c :: ts1 ++ more, _, by rw [e1]; simp, rfl, hv, by rw [e2]; exact .cons hc h1 h2⟩

theorem members_split {key : Token → String} : ∀ {ts : List Token} {ms : List (String × Doc)}, TMembers key ts ms →
    ∃ k c ts1 v more ms', ts = k :: c :: ts1 ++ more ∧ ms = (key k, v) :: ms' ∧ k.kind = .string ∧ c.kind = .colon ∧
      TValue key ts1 v ∧ TMore key more ms'
  | _, _, .one hk hc hv => ⟨_, _, _, _, [], [], by simp, rfl, hk, hc, hv, .nil⟩
  | _, _, @TMembers.cons _ k c m ts rest v ms hk hc hm hv hrest => by
    obtain ⟨k', c', ts1, v', more, ms', e1, e2, h1, h2, h3, h4⟩ := members_split hrest
    exact ⟨k, c, ts, v, m :: k' :: c' :: ts1 ++ more, _, by rw [e1]; simp, rfl, hk, hc, hv,
      by rw [e2]; exact .cons hm h1 h2 h3 h4⟩

/-- a run that reports nothing and leaves exactly `rest` of the grammar's tokens -/
def Done (s : PState) (r : PState × List Item) (rest : List Token) : Prop :=
  r.1.diags = s.diags ∧ sig r.1.toks = rest

theorem literal_complete {s : PState} (h : CleanSt s) {t : Token} {rest : List Token}
    (hs : sig s.toks = t :: rest)
    (hk : t.kind = .string ∨ t.kind = .number ∨ t.kind = .true_ ∨ t.kind = .false_ ∨ t.kind = .null_) :
    Done s (ruleLiteral s) rest := by
  have hcur := current_of_sig h hs
  unfold ruleLiteral
  simp only
  rcases hk with hk | hk | hk | hk | hk
  · have := expect_complete h hs hk (by decide)
    simp only [hcur, hk, beq_self_eq_true, if_true]
    exact ⟨this.1.same, this.2⟩
  · have := expect_complete h hs hk (by decide)
    simp only [hcur, hk, show (Tok.number == Tok.string) = false by decide, Bool.false_eq_true, if_false,
      beq_self_eq_true, if_true]
    exact ⟨this.1.same, this.2⟩
  · have := expect_complete h hs hk (by decide)
    simp only [hcur, hk, show (Tok.true_ == Tok.string) = false by decide, show (Tok.true_ == Tok.number) = false by decide,
      show (Tok.true_ == Tok.false_) = false by decide, Bool.false_eq_true, if_false, beq_self_eq_true, if_true,
      Bool.or_true, Bool.false_or, ruleBoolean]
    exact ⟨this.1.same, this.2⟩
  · have := expect_complete h hs hk (by decide)
    simp only [hcur, hk, show (Tok.false_ == Tok.string) = false by decide, show (Tok.false_ == Tok.number) = false by decide,
      Bool.false_eq_true, if_false, beq_self_eq_true, if_true, Bool.true_or, ruleBoolean]
    exact ⟨this.1.same, this.2⟩
  · have := expect_complete h hs hk (by decide)
    simp only [hcur, hk, show (Tok.null_ == Tok.string) = false by decide, show (Tok.null_ == Tok.number) = false by decide,
      show (Tok.null_ == Tok.false_) = false by decide, show (Tok.null_ == Tok.true_) = false by decide,
      Bool.false_eq_true, if_false, beq_self_eq_true, if_true, Bool.or_self]
    exact ⟨this.1.same, this.2⟩

theorem keyOk_expect {src : List Char} {key : Token → String} {s : PState} (k : Tok)
    (hk : KeyOk src key s.toks) : KeyOk src key (s.expect k).1.toks :=
  keyOk_of_subset hk (mem_toks_of_yields (expect_yields k) s)

set_option maxHeartbeats 1000000 in
theorem rules_complete (src : List Char) (key : Token → String) (fuel : Nat) :
    (∀ s ph rest d, CleanSt s → KeyOk src key s.toks → 2 * s.toks.length + 2 ≤ fuel →
      sig s.toks = ph ++ rest → TValue key ph d → Done s (ruleValue fuel s) rest) ∧
    (∀ s (k c : Token) ph rest v, CleanSt s → KeyOk src key s.toks → 2 * s.toks.length + 1 ≤ fuel →
      sig s.toks = k :: c :: ph ++ rest → k.kind = .string → c.kind = .colon → TValue key ph v →
      Done s (ruleMember fuel s) rest) ∧
    (∀ s more (r : Token) rest ms, CleanSt s → KeyOk src key s.toks → 2 * s.toks.length + 1 ≤ fuel →
      sig s.toks = more ++ r :: rest → TMore key more ms → r.kind = .rbrace →
      Done s (objectLoop fuel s) (r :: rest)) ∧
    (∀ s ph rest d (l : Token) tl, CleanSt s → KeyOk src key s.toks → 2 * s.toks.length + 1 ≤ fuel →
      sig s.toks = ph ++ rest → TValue key ph d → ph = l :: tl → l.kind = .lbrace →
      Done s (ruleObject fuel s) rest) ∧
    (∀ s more (r : Token) rest xs, CleanSt s → KeyOk src key s.toks → 2 * s.toks.length + 1 ≤ fuel →
      sig s.toks = more ++ r :: rest → TMoreElems key more xs → r.kind = .rbrak →
      Done s (arrayLoop fuel s) (r :: rest)) ∧
    (∀ s ph rest d (l : Token) tl, CleanSt s → KeyOk src key s.toks → 2 * s.toks.length + 1 ≤ fuel →
      sig s.toks = ph ++ rest → TValue key ph d → ph = l :: tl → l.kind = .lbrak →
      Done s (ruleArray fuel s) rest) := by
  induction fuel with
  | zero =>
    refine ⟨?_, ?_, ?_, ?_, ?_, ?_⟩
    · intro s _ _ _ _ _ hf; omega
    · intro s _ _ _ _ _ _ _ hf; omega
    · intro s _ _ _ _ _ _ hf; omega
    · intro s _ _ _ _ _ _ _ hf; omega
    · intro s _ _ _ _ _ _ hf; omega
    · intro s _ _ _ _ _ _ _ hf; omega
  | succ fuel ih =>
    obtain ⟨ihV, ihM, ihOL, ihO, ihAL, ihA⟩ := ih
    have sound := rules_sound src key fuel
    refine ⟨?_, ?_, ?_, ?_, ?_, ?_⟩
    · -- ruleValue
      intro s ph rest d hc hk hf hs htv
      obtain ⟨t, tl, hph, hvs⟩ := first_of_value htv
      have hcur : s.current = t.kind := current_of_sig hc (by rw [hs, hph]; rfl)
      simp only [ruleValue]
      cases htv with
      | null hk' =>
        cases hph
        have := literal_complete hc (by simpa using hs) (.inr (.inr (.inr (.inr hk'))))
        simpa [hcur, hk', isLiteralStart] using this
      | tru hk' =>
        cases hph
        have := literal_complete hc (by simpa using hs) (.inr (.inr (.inl hk')))
        simpa [hcur, hk', isLiteralStart] using this
      | fls hk' =>
        cases hph
        have := literal_complete hc (by simpa using hs) (.inr (.inr (.inr (.inl hk'))))
        simpa [hcur, hk', isLiteralStart] using this
      | num hk' =>
        cases hph
        have := literal_complete hc (by simpa using hs) (.inr (.inl hk'))
        simpa [hcur, hk', isLiteralStart] using this
      | str hk' =>
        cases hph
        have := literal_complete hc (by simpa using hs) (.inl hk')
        simpa [hcur, hk', isLiteralStart] using this
      | arrE hl hr =>
        cases hph
        have := ihA s _ rest _ _ _ hc hk (by omega) hs (.arrE hl hr) rfl hl
        simpa [hcur, hl] using this
      | arr hl hr he =>
        cases hph
        have := ihA s _ rest _ _ _ hc hk (by omega) hs (.arr hl hr he) rfl hl
        simpa [hcur, hl] using this
      | objE hl hr =>
        cases hph
        have := ihO s _ rest _ _ _ hc hk (by omega) hs (.objE hl hr) rfl hl
        simpa [hcur, hl] using this
      | obj hl hr hm =>
        cases hph
        have := ihO s _ rest _ _ _ hc hk (by omega) hs (.obj hl hr hm) rfl hl
        simpa [hcur, hl] using this
    · -- ruleMember
      intro s k c ph rest v hc hk hf hs hkk hck htv
      simp only [ruleMember]
      obtain ⟨st1, hs1⟩ := expect_complete hc hs hkk (by decide)
      obtain ⟨st2, hs2⟩ := expect_complete st1.clean hs1 hck (by decide)
      have l1 := st1.less
      have l2 := st2.less
      have hk2 : KeyOk src key ((s.expect .string).1.expect .colon).1.toks := keyOk_expect _ (keyOk_expect _ hk)
      have := ihV _ ph rest v st2.clean hk2 (by omega) hs2 htv
      exact ⟨by rw [this.1, st2.same, st1.same], this.2⟩
    · -- objectLoop
      intro s more r rest ms hc hk hf hs hmore hr
      simp only [objectLoop]
      cases hmore with
      | nil =>
        have hcur := current_of_sig hc (by simpa using hs)
        simp only [hcur, hr, show (Tok.rbrace == Tok.comma) = false by decide, Bool.false_eq_true, if_false,
          beq_self_eq_true, Bool.true_or, if_true]
        exact ⟨rfl, by simpa using hs⟩
      | @cons m k c ts rest' v ms' hm hkk hck htv hrest =>
        have hs' : sig s.toks = m :: (k :: c :: ts ++ (rest' ++ r :: rest)) := by rw [hs]; simp
        have hcur := current_of_sig hc hs'
        simp only [hcur, hm, beq_self_eq_true, if_true]
        obtain ⟨st1, hs1⟩ := expect_complete hc hs' hm (by decide)
        have l1 := st1.less
        have hk1 : KeyOk src key (s.expect .comma).1.toks := keyOk_expect _ hk
        have dm := ihM _ k c ts (rest' ++ r :: rest) v st1.clean hk1 (by omega) hs1 hkk hck htv
        have gm := sound.2.1 _ st1.clean hk1 (by omega) dm.1
        have hk2 : KeyOk src key (ruleMember fuel (s.expect .comma).1).1.toks :=
          keyOk_of_subset hk1 (mem_toks_of_yields (rules_yield fuel).2.1 _)
        have l2 := gm.less
        have dl := ihOL _ rest' r rest ms' gm.clean hk2 (by omega) dm.2 hrest hr
        exact ⟨by rw [dl.1, dm.1, st1.same], dl.2⟩
    · -- ruleObject
      intro s ph rest d l tl hc hk hf hs htv hph hl
      simp only [ruleObject]
      subst hph
      obtain ⟨st1, hs1⟩ := expect_complete hc (by simpa using hs) hl (by decide)
      have l1 := st1.less
      have hk1 : KeyOk src key (s.expect .lbrace).1.toks := keyOk_expect _ hk
      cases htv with
      | objE _ hr =>
        simp only [List.cons_append, List.nil_append] at hs1
        have hcur := current_of_sig st1.clean hs1
        simp only [hcur, hr, show (Tok.rbrace == Tok.string) = false by decide, Bool.false_eq_true, if_false,
          beq_self_eq_true, if_true]
        obtain ⟨st4, hs4⟩ := expect_complete st1.clean hs1 hr (by decide)
        exact ⟨by rw [st4.same, st1.same], hs4⟩
      | @obj _ r ts ms _ hr hmem =>
        obtain ⟨k, c, ts1, v, more, ms', e1, e2, hkk, hck, htv1, hmore⟩ := members_split hmem
        subst e1
        have hs1' : sig (s.expect .lbrace).1.toks = k :: c :: ts1 ++ (more ++ r :: rest) := by
          rw [hs1]; simp
        have hcur := current_of_sig st1.clean hs1'
        simp only [hcur, hkk, beq_self_eq_true, if_true]
        have dm := ihM _ k c ts1 (more ++ r :: rest) v st1.clean hk1 (by omega) hs1' hkk hck htv1
        have gm := sound.2.1 _ st1.clean hk1 (by omega) dm.1
        have hk2 : KeyOk src key (ruleMember fuel (s.expect .lbrace).1).1.toks :=
          keyOk_of_subset hk1 (mem_toks_of_yields (rules_yield fuel).2.1 _)
        have l2 := gm.less
        have dl := ihOL _ more r rest ms' gm.clean hk2 (by omega) dm.2 hmore hr
        have gl := sound.2.2.1 _ gm.clean hk2 (by omega) dl.1
        obtain ⟨st4, hs4⟩ := expect_complete gl.clean dl.2 hr (by decide)
        exact ⟨by rw [st4.same, dl.1, dm.1, st1.same], hs4⟩
      | null hk' => rw [hl] at hk'; cases hk'
      | tru hk' => rw [hl] at hk'; cases hk'
      | fls hk' => rw [hl] at hk'; cases hk'
      | num hk' => rw [hl] at hk'; cases hk'
      | str hk' => rw [hl] at hk'; cases hk'
      | arrE hl' _ => rw [hl] at hl'; cases hl'
      | arr hl' _ _ => rw [hl] at hl'; cases hl'
    · -- arrayLoop
      intro s more r rest xs hc hk hf hs hmore hr
      simp only [arrayLoop]
      cases hmore with
      | nil =>
        have hcur := current_of_sig hc (by simpa using hs)
        simp only [hcur, hr, show (Tok.rbrak == Tok.comma) = false by decide, Bool.false_eq_true, if_false,
          beq_self_eq_true, Bool.true_or, if_true]
        exact ⟨rfl, by simpa using hs⟩
      | @cons m ts rest' x xs' hm htv hrest =>
        have hs' : sig s.toks = m :: (ts ++ (rest' ++ r :: rest)) := by rw [hs]; simp
        have hcur := current_of_sig hc hs'
        simp only [hcur, hm, beq_self_eq_true, if_true]
        obtain ⟨st1, hs1⟩ := expect_complete hc hs' hm (by decide)
        have l1 := st1.less
        have hk1 : KeyOk src key (s.expect .comma).1.toks := keyOk_expect _ hk
        have dv := ihV _ ts (rest' ++ r :: rest) x st1.clean hk1 (by omega) hs1 htv
        have gv := sound.1 _ st1.clean hk1 (by omega) dv.1
        have hk2 : KeyOk src key (ruleValue fuel (s.expect .comma).1).1.toks :=
          keyOk_of_subset hk1 (mem_toks_of_yields (rules_yield fuel).1 _)
        have l2 := gv.less
        have dl := ihAL _ rest' r rest xs' gv.clean hk2 (by omega) dv.2 hrest hr
        exact ⟨by rw [dl.1, dv.1, st1.same], dl.2⟩
    · -- ruleArray
      intro s ph rest d l tl hc hk hf hs htv hph hl
      simp only [ruleArray]
      subst hph
      obtain ⟨st1, hs1⟩ := expect_complete hc (by simpa using hs) hl (by decide)
      have l1 := st1.less
      have hk1 : KeyOk src key (s.expect .lbrak).1.toks := keyOk_expect _ hk
      cases htv with
      | arrE _ hr =>
        simp only [List.cons_append, List.nil_append] at hs1
        have hcur := current_of_sig st1.clean hs1
        simp only [hcur, hr, show isValueStart Tok.rbrak = false by decide, Bool.false_eq_true, if_false,
          beq_self_eq_true, if_true]
        obtain ⟨st4, hs4⟩ := expect_complete st1.clean hs1 hr (by decide)
        exact ⟨by rw [st4.same, st1.same], hs4⟩
      | @arr _ r ts xs _ hr helems =>
        obtain ⟨ts1, x, more, xs', e1, e2, htv1, hmore⟩ := elems_split helems
        subst e1
        obtain ⟨t1, tl1, hts1, hvs⟩ := first_of_value htv1
        have hs1' : sig (s.expect .lbrak).1.toks = ts1 ++ (more ++ r :: rest) := by rw [hs1]; simp
        have hcur := current_of_sig st1.clean (t := t1) (by rw [hs1', hts1]; rfl)
        simp only [hcur, hvs, if_true]
        have dv := ihV _ ts1 (more ++ r :: rest) x st1.clean hk1 (by omega) hs1' htv1
        have gv := sound.1 _ st1.clean hk1 (by omega) dv.1
        have hk2 : KeyOk src key (ruleValue fuel (s.expect .lbrak).1).1.toks :=
          keyOk_of_subset hk1 (mem_toks_of_yields (rules_yield fuel).1 _)
        have l2 := gv.less
        have dl := ihAL _ more r rest xs' gv.clean hk2 (by omega) dv.2 hmore hr
        have gl := sound.2.2.2.2.1 _ gv.clean hk2 (by omega) dl.1
        obtain ⟨st4, hs4⟩ := expect_complete gl.clean dl.2 hr (by decide)
        exact ⟨by rw [st4.same, dl.1, dv.1, st1.same], hs4⟩
      | null hk' => rw [hl] at hk'; cases hk'
      | tru hk' => rw [hl] at hk'; cases hk'
      | fls hk' => rw [hl] at hk'; cases hk'
      | num hk' => rw [hl] at hk'; cases hk'
      | str hk' => rw [hl] at hk'; cases hk'
      | objE hl' _ => rw [hl] at hl'; cases hl'
      | obj hl' _ _ => rw [hl] at hl'; cases hl'

end ShapeVerif
