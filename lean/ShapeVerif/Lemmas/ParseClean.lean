/-
The recovering parser in "clean mode": states in which no error has been reported yet. In such a
state `error` always pushes a diagnostic, so a run that ends with the diagnostics it started with has
never called it — every `expect!` succeeded and every branch taken was a grammatical one.
-/
import ShapeVerif.Lemmas.ParsePreserve
import ShapeVerif.Ref.TokenGrammar
namespace ShapeVerif

/-- the tokens the grammar sees -/
def sig (ts : List Token) : List Token := ts.filter (fun t => !isSkipTok t.kind)

structure TokensOk (ts : List Token) : Prop where
  noErr : ∀ t ∈ ts, t.kind ≠ .error ∧ t.kind ≠ .eof
  pos : ∀ t ∈ ts, t.start < t.stop

theorem TokensOk.tail {t : Token} {ts : List Token} (h : TokensOk (t :: ts)) : TokensOk ts :=
  ⟨fun x hx => h.noErr x (by simp [hx]), fun x hx => h.pos x (by simp [hx])⟩

theorem TokensOk.of_suffix {a b : List Token} (h : TokensOk (a ++ b)) : TokensOk b :=
  ⟨fun x hx => h.noErr x (by simp [hx]), fun x hx => h.pos x (by simp [hx])⟩

structure CleanSt (s : PState) : Prop where
  cooldown : s.cooldown = false
  les : s.lastErrorSpan = (0, 0)
  cur : s.current = headKind s.toks
  head : ∀ t rest, s.toks = t :: rest → isSkipTok t.kind = false
  toksOk : TokensOk s.toks
  nonEmpty : s.maxOffset ≠ 0

theorem span_ne_zero {s : PState} (h : CleanSt s) : s.span ≠ (0, 0) := by
  unfold PState.span
  cases ht : s.toks with
  | nil =>
    simp only
    intro e
    simp only [Prod.mk.injEq] at e
    exact h.nonEmpty e.1
  | cons t ts =>
    simp only
    intro e
    have := h.toksOk.pos t (by simp [ht])
    simp only [Prod.mk.injEq] at e
    omega

/-- in a clean state `error` always reports -/
theorem error_pushes {s : PState} (h : CleanSt s) :
    s.error.diags = ⟨.syntax, s.span.1, s.span.2⟩ :: s.diags := by
  unfold PState.error
  have h1 : s.cooldown = false := h.cooldown
  have h2 : (s.lastErrorSpan == s.span) = false := by
    rw [h.les]
    have := span_ne_zero h
    simp only [beq_eq_false_iff_ne, ne_eq]
    exact fun e => this e.symm
  simp [h1, h2]

theorem error_changes {s : PState} (h : CleanSt s) : s.error.diags ≠ s.diags := by
  rw [error_pushes h]
  intro e
  have := congrArg List.length e
  simp at this

/-! ### skipped tokens -/

def SkipItems (l : List Item) : Prop := ∀ i ∈ l, i.skip = true ∧ ∃ k a b, i.node = .tok k a b ∧ (k = .ws ∨ k = .nl)

theorem isSkip_ws_nl {ts : List Token} (h : TokensOk ts) {t : Token} (ht : t ∈ ts) (hs : isSkipTok t.kind = true) :
    t.kind = .ws ∨ t.kind = .nl := by
  have := (h.noErr t ht).1
  simp only [isSkipTok, Bool.or_eq_true, beq_iff_eq] at hs
  rcases hs with (hs | hs) | hs
  · exact absurd hs this
  · exact .inl hs
  · exact .inr hs

theorem takeSkips_spec : ∀ (ts : List Token), TokensOk ts →
    SkipItems (takeSkips ts).1 ∧ sig (takeSkips ts).2.1 = sig ts ∧
    (∀ t rest, (takeSkips ts).2.1 = t :: rest → isSkipTok t.kind = false) ∧
    TokensOk (takeSkips ts).2.1 ∧ (takeSkips ts).2.1.length ≤ ts.length
  | [], _ =>
    ⟨(by intro i hi; simp [takeSkips] at hi), (by simp [takeSkips]), (by intro t rest h; simp [takeSkips] at h),
      (by simp only [takeSkips]; exact ⟨(by simp), (by simp)⟩), (by simp [takeSkips])⟩
  | t :: ts, h => by
    unfold takeSkips
    split
    · rename_i hs
      obtain ⟨h1, h2, h3, h4, h5⟩ := takeSkips_spec ts h.tail
      refine ⟨?_, ?_, h3, h4, by simp at h5 ⊢; omega⟩
      · intro i hi
        rcases List.mem_cons.1 hi with rfl | hi
        · exact ⟨rfl, t.kind, t.start, t.stop, rfl, isSkip_ws_nl h (by simp) hs⟩
        · exact h1 i hi
      · show sig (takeSkips ts).2.1 = sig (t :: ts)
        rw [h2]
        simp [sig, hs]
    · rename_i hs
      simp only [Bool.not_eq_true] at hs
      exact ⟨(by intro i hi; cases hi), rfl, (by intro t' rest e; cases e; exact hs), h, Nat.le_refl _⟩

theorem headKind_ne_eof {ts : List Token} (h : TokensOk ts) {t : Token} {rest : List Token} (e : ts = t :: rest) :
    headKind ts ≠ .eof := by
  subst e
  exact (h.noErr t (by simp)).2

theorem toks_nil_of_eof {s : PState} (h : CleanSt s) (he : s.current = .eof) : s.toks = [] := by
  cases ht : s.toks with
  | nil => rfl
  | cons t ts =>
    have := headKind_ne_eof h.toksOk ht
    rw [← h.cur] at this
    exact absurd he this

/-- consuming the current token in a clean state -/
theorem advance_clean {s : PState} (h : CleanSt s) {t : Token} {ts : List Token} (ht : s.toks = t :: ts) :
    CleanSt (s.advance false).1 ∧ (s.advance false).1.diags = s.diags ∧
    (∃ sk, (s.advance false).2 = ⟨.tok t.kind t.start t.stop, false⟩ :: sk ∧ SkipItems sk) ∧
    sig s.toks = t :: sig (s.advance false).1.toks ∧
    (s.advance false).1.toks.length < s.toks.length := by
  have hok : TokensOk ts := by have := h.toksOk; rw [ht] at this; exact this.tail
  obtain ⟨h1, h2, h3, h4, h5⟩ := takeSkips_spec ts hok
  have hns := h.head t ts ht
  simp only [PState.advance, ht]
  refine ⟨⟨by simp, h.les, by simp, h3, h4, h.nonEmpty⟩, by simp, ⟨_, rfl, h1⟩, ?_, by simp; omega⟩
  show sig (t :: ts) = t :: sig (takeSkips ts).2.1
  rw [h2]
  simp [sig, hns]

theorem expect_clean {s : PState} (h : CleanSt s) (k : Tok) (hk0 : k ≠ .eof)
    (hd : (s.expect k).1.diags = s.diags) :
    ∃ t ts, s.toks = t :: ts ∧ t.kind = k ∧ s.expect k = s.advance false := by
  unfold PState.expect at hd ⊢
  split at hd
  · rename_i hk
    have hk' : s.current = k := by simpa using hk
    cases ht : s.toks with
    | nil =>
      -- current = eof = k: advance returns the state unchanged; but then nothing is consumed
      exfalso
      have := h.cur
      rw [ht, hk'] at this
      exact hk0 this
    | cons t ts =>
      refine ⟨t, ts, rfl, ?_, by simp [hk]⟩
      have := h.cur
      rw [ht] at this
      simpa [headKind, hk'] using this.symm
  · exact absurd hd (error_changes h)

end ShapeVerif
