/-
Exact characterisation of the array classification of both inference paths, and their agreement.
-/
import ShapeVerif.Lemmas.InferSound
namespace ShapeVerif
open Shape Std

/-- sorted maps are determined by their lookup function -/
theorem members_ext : ∀ {m m' : Members}, sortedKeys m = true → sortedKeys m' = true →
    (∀ k, mapGet k m = mapGet k m') → m = m'
  | [], [], _, _, _ => rfl
  | [], (k, v) :: _, _, _, h => by have := h k; simp [mapGet] at this
  | (k, v) :: _, [], _, _, h => by have := h k; simp [mapGet] at this
  | (k, v) :: m, (k', v') :: m', hs, hs', h => by
    have hk : k = k' := by
      -- the smaller head key would be missing from the other map
      rcases hc : compare k k' with _ | _ | _
      · have h1 := h k
        rw [mapGet_cons, mapGet_cons] at h1
        have hne : (k == k') = false := by
          have : k ≠ k' := by intro e; subst e; simp [ReflCmp.compare_self] at hc
          simp [this]
        simp only [beq_self_eq_true, if_true, hne] at h1
        have : mapGet k m' = none := by
          rw [mapGet_none_iff]
          intro w hw
          have := sortedKeys_head_lt hs' (k, w) hw
          have := TransCmp.lt_trans hc this
          simp [ReflCmp.compare_self] at this
        simp [this] at h1
      · exact compare_eq_iff_eq.1 hc
      · have hc' : compare k' k = .lt := (compare_string_gt_iff_lt k k').1 hc
        have h1 := h k'
        rw [mapGet_cons, mapGet_cons] at h1
        have hne : (k' == k) = false := by
          have : k' ≠ k := by intro e; subst e; simp [ReflCmp.compare_self] at hc'
          simp [this]
        simp only [beq_self_eq_true, if_true, hne] at h1
        have : mapGet k' m = none := by
          rw [mapGet_none_iff]
          intro w hw
          have := sortedKeys_head_lt hs (k', w) hw
          have := TransCmp.lt_trans hc' this
          simp [ReflCmp.compare_self] at this
        simp [this] at h1
    subst hk
    have hv : v = v' := by
      have := h k
      simpa [mapGet_cons] using this
    subst hv
    congr 1
    apply members_ext (sortedKeys_tail hs) (sortedKeys_tail hs')
    intro k0
    have hh := h k0
    rw [mapGet_cons, mapGet_cons] at hh
    by_cases hk0 : k0 = k
    · subst hk0
      have a1 : mapGet k0 m = none := by
        rw [mapGet_none_iff]; intro w hw; exact sortedKeys_head_ne hs (k0, w) hw rfl
      have a2 : mapGet k0 m' = none := by
        rw [mapGet_none_iff]; intro w hw; exact sortedKeys_head_ne hs' (k0, w) hw rfl
      rw [a1, a2]
    · have hb : (k0 == k) = false := by simp [hk0]
      simpa [hb] using hh

theorem classifyArray_objects {content : Members} {o : Bool} {rest : List Shape}
    (hae : allEqual (.object content o :: rest) = false)
    (hobj : (Shape.object content o :: rest).all isObject = true)
    (hl : (Shape.object content o :: rest).length > 1) :
    classifyArray (.object content o :: rest) =
      .ok (.array (.object (mergeObjectElements content rest) false) false) := by
  have c1 : (!(Shape.object content o :: rest).isEmpty && allEqual (.object content o :: rest)) = false := by
    simp [hae]
  have c2 : (decide ((Shape.object content o :: rest).length > 1) &&
      (Shape.object content o :: rest).all isObject) = true := by
    simp only [Bool.and_eq_true, decide_eq_true_eq]; exact ⟨hl, hobj⟩
  unfold classifyArray
  simp only [c1, c2, Bool.false_eq_true, if_false, if_true]

theorem classifyArrayV_objects {content : Members} {o : Bool} {rest : List Shape}
    (hobj : (Shape.object content o :: rest).all isObject = true)
    (hl : (Shape.object content o :: rest).length > 1) :
    classifyArrayV (.object content o :: rest) =
      .array (.object (mergeObjectElements content rest) false) false := by
  have c2 : (decide ((Shape.object content o :: rest).length > 1) &&
      (Shape.object content o :: rest).all isObject) = true := by
    simp only [Bool.and_eq_true, decide_eq_true_eq]; exact ⟨hl, hobj⟩
  unfold classifyArrayV
  simp only [c2, if_true]

theorem classifyArrayV_not_objects {e : Shape} {rest : List Shape}
    (h : (decide ((e :: rest).length > 1) && (e :: rest).all isObject) = false) :
    classifyArrayV (e :: rest) =
      if allEqual (e :: rest) then .array e false
      else if (e :: rest).length > 1 then .tuple (e :: rest) false else .array .null true := by
  unfold classifyArrayV
  simp only [h, Bool.false_eq_true, if_false, List.isEmpty_cons, Bool.not_false, Bool.true_and]

/-- what the text path's array classification returns, case by case -/
theorem classifyArray_spec (es : List Shape) (hwf : wfList es = true) (hno : noOneOfValues es) :
    (es = [] → classifyArray es = .ok (.array .null true)) ∧
    (∀ first rest, es = first :: rest → allEqual es = true → classifyArray es = .ok (.array first false)) ∧
    (es ≠ [] → allEqual es = false → es.all isObject = false → classifyArray es = .ok (.tuple es false)) ∧
    (es ≠ [] → allEqual es = false → es.all isObject = true →
      ∃ M, classifyArray es = .ok (.array (.object M false) false) ∧ sortedKeys M = true ∧
        ∀ k, mapGet k M = specLookup k es) := by
  have hlen : es ≠ [] → allEqual es = false → es.length > 1 := by
    intro hne hae
    cases es with
    | nil => exact absurd rfl hne
    | cons a l =>
      cases l with
      | nil => simp [allEqual] at hae
      | cons b l => simp
  refine ⟨?_, ?_, ?_, ?_⟩
  · rintro rfl; simp [classifyArray, allEqual]
  · rintro first rest rfl hae; simp [classifyArray, hae]
  · intro hne hae hobj
    have := hlen hne hae
    unfold classifyArray
    simp [hae, hobj, this]
  · intro hne hae hobj
    have hl := hlen hne hae
    cases es with
    | nil => exact absurd rfl hne
    | cons e rest =>
      have hobj' := hobj
      rw [List.all_cons, Bool.and_eq_true] at hobj'
      obtain ⟨content, o, rfl⟩ := isObject_cases hobj'.1
      refine ⟨mergeObjectElements content rest, ?_, ?_, ?_⟩
      · exact classifyArray_objects hae hobj hl
      · simp only [wfList, Shape.wf, Bool.and_eq_true] at hwf
        exact (MapOk_mergeObjectElements ⟨hwf.1.1, hwf.1.2⟩ hwf.2).1
      · intro k; exact mapGet_mergeObjectElements k content o rest hobj'.2 hno

/-- the value path's classification tests its branches in another order but agrees on inferred shapes
(whose object flags are off) -/
theorem classify_agree (es : List Shape) (hwf : wfList es = true) (hno : noOneOfValues es)
    (hflag : ∀ c o, Shape.object c o ∈ es → o = false) :
    classifyArray es = .ok (classifyArrayV es) := by
  obtain ⟨s1, s2, s3, s4⟩ := classifyArray_spec es hwf hno
  cases es with
  | nil => simp [classifyArray, classifyArrayV, allEqual]
  | cons e rest =>
    by_cases hcond : (decide ((e :: rest).length > 1) && (e :: rest).all isObject) = true
    · -- value path takes the objects branch
      have hcond' := hcond
      simp only [Bool.and_eq_true, decide_eq_true_eq] at hcond'
      obtain ⟨hl, hobj⟩ := hcond'
      have hobj' := hobj
      rw [List.all_cons, Bool.and_eq_true] at hobj'
      obtain ⟨content, o, rfl⟩ := isObject_cases hobj'.1
      rw [classifyArrayV_objects hobj hl]
      by_cases hae : allEqual (.object content o :: rest) = true
      · -- all elements are one and the same object: the merged object is that object
        rw [s2 _ rest rfl hae]
        have ho : o = false := hflag content o (by simp)
        subst ho
        have hwf' := hwf
        simp only [wfList, Shape.wf, Bool.and_eq_true] at hwf'
        have hM := MapOk_mergeObjectElements (content := content) (rest := rest) ⟨hwf'.1.1, hwf'.1.2⟩ hwf'.2
        have : content = mergeObjectElements content rest := by
          apply members_ext hwf'.1.1 hM.1
          intro k
          rw [mapGet_mergeObjectElements k content false rest hobj'.2 hno]
          have heq := (allEqual_iff_all_eq_head (.object content false) rest).1 hae
          simp only [specLookup, firstValue]
          cases hg : mapGet k content with
          | some v =>
            have : (Shape.object content false :: rest).all (hasKey k) = true := by
              rw [List.all_eq_true]
              intro x hx
              rcases List.mem_cons.1 hx with rfl | hx
              · simp [hasKey, hg]
              · rw [heq x hx]; simp [hasKey, hg]
            simp [this]
          | none =>
            have : firstValue k rest = none := by
              clear s1 s2 s3 s4 hM hobj hobj' hae hwf hwf' hno hflag hcond hl
              induction rest with
              | nil => rfl
              | cons x rest ih =>
                have hx := heq x (by simp)
                subst hx
                simp only [firstValue, hg]
                exact ih (fun y hy => heq y (by simp [hy]))
            simp [this]
        rw [← this]
      · have hae' : allEqual (.object content o :: rest) = false := by simpa using hae
        exact classifyArray_objects hae' hobj hl
    · have hcond' : (decide ((e :: rest).length > 1) && (e :: rest).all isObject) = false := by
        simpa using hcond
      rw [classifyArrayV_not_objects hcond']
      by_cases hae : allEqual (e :: rest) = true
      · rw [s2 e rest rfl hae]; simp [hae]
      · have hae' : allEqual (e :: rest) = false := by simpa using hae
        have hl : (e :: rest).length > 1 := by
          cases rest with
          | nil => simp [allEqual] at hae'
          | cons b l => simp
        have hobj : (e :: rest).all isObject = false := by
          simp only [Bool.and_eq_false_iff, decide_eq_false_iff_not] at hcond'
          rcases hcond' with h | h
          · exact absurd hl h
          · exact h
        rw [s3 (by simp) hae' hobj]
        have hne : rest ≠ [] := by intro h; subst h; simp [allEqual] at hae'
        simp [hae', hne]

end ShapeVerif
