/-
The derived `Ord` on shapes is a strict total order: orientation and transitivity of `Shape.cmp`.
(Equality is `cmp_eq_iff` in `Lemmas/Order.lean`.)
-/
import ShapeVerif.Lemmas.Order
namespace ShapeVerif
open Shape Std

theorem then_swap (a b : Ordering) : (a.then b).swap = a.swap.then b.swap := Ordering.swap_then a b

theorem compare_bool_swap (a b : Bool) : compare a b = (compare b a).swap := OrientedCmp.eq_swap
theorem compare_string_swap (a b : String) : compare a b = (compare b a).swap := OrientedCmp.eq_swap
theorem compare_nat_swap (a b : Nat) : compare a b = (compare b a).swap := OrientedCmp.eq_swap

/-- orientation, for shapes, lists and member lists at once, by induction on a size bound -/
theorem cmp_swap_aux (n : Nat) :
    (∀ a b : Shape, sizeOf a ≤ n → cmp a b = (cmp b a).swap) ∧
    (∀ a b : List Shape, sizeOf a ≤ n → cmpList a b = (cmpList b a).swap) ∧
    (∀ a b : Members, sizeOf a ≤ n → cmpMembers a b = (cmpMembers b a).swap) := by
  induction n with
  | zero =>
    refine ⟨?_, ?_, ?_⟩
    · intro a b h; cases a <;> simp at h
    · intro a b h; cases a <;> simp at h
    · intro a b h; cases a <;> simp at h
  | succ n ih =>
    obtain ⟨ihS, ihL, ihM⟩ := ih
    refine ⟨?_, ?_, ?_⟩
    · intro a b h
      cases a <;> cases b <;> simp only [cmp, tag] <;>
        first
          | rfl
          | exact compare_bool_swap _ _
          | decide
          | skip
      all_goals simp at h
      · rename_i t o t' o'
        rw [ihS t t' (by omega), compare_bool_swap o o', then_swap]
      · rename_i c o c' o'
        rw [ihM c c' (by omega), compare_bool_swap o o', then_swap]
      · rename_i c o c' o'
        rw [ihL c c' (by omega), compare_bool_swap o o', then_swap]
      · rename_i c o c' o'
        rw [ihL c c' (by omega), compare_bool_swap o o', then_swap]
    · intro a b h
      cases a <;> cases b <;> simp only [cmpList] <;> try rfl
      rename_i x xs y ys
      simp at h
      rw [ihS x y (by omega), ihL xs ys (by omega), then_swap]
    · intro a b h
      cases a <;> cases b <;> try (simp only [cmpMembers]; rfl)
      rename_i x xs y ys
      obtain ⟨k, v⟩ := x; obtain ⟨k', v'⟩ := y
      simp only [cmpMembers]
      simp at h
      rw [ihS v v' (by omega), ihM xs ys (by omega), compare_string_swap k k', then_swap, then_swap]

theorem cmp_swap (a b : Shape) : cmp a b = (cmp b a).swap :=
  (cmp_swap_aux (sizeOf a)).1 a b (Nat.le_refl _)

theorem cmp_gt_iff_lt (a b : Shape) : cmp a b = .gt ↔ cmp b a = .lt := by
  rw [cmp_swap a b]; cases cmp b a <;> simp [Ordering.swap]

theorem cmp_lt_iff_gt (a b : Shape) : cmp a b = .lt ↔ cmp b a = .gt := by
  rw [cmp_swap a b]; cases cmp b a <;> simp [Ordering.swap]

end ShapeVerif

namespace ShapeVerif
open Shape Std

/-- transitivity of `<` through a lexicographic `then` -/
theorem lex_lt_trans {A12 A23 A13 B12 B23 B13 : Ordering}
    (hA : A12 = .lt → A23 = .lt → A13 = .lt)
    (hA1 : A12 = .eq → A13 = A23) (hA2 : A23 = .eq → A13 = A12)
    (hB : B12 = .lt → B23 = .lt → B13 = .lt)
    (h1 : A12.then B12 = .lt) (h2 : A23.then B23 = .lt) : A13.then B13 = .lt := by
  cases h12 : A12 <;> cases h23 : A23 <;> simp_all [Ordering.then]

theorem compare_bool_lt_trans {a b c : Bool} (h1 : compare a b = .lt) (h2 : compare b c = .lt) :
    compare a c = .lt := TransCmp.lt_trans h1 h2
theorem compare_string_lt_trans {a b c : String} (h1 : compare a b = .lt) (h2 : compare b c = .lt) :
    compare a c = .lt := TransCmp.lt_trans h1 h2

theorem cmp_of_tag_lt {a b : Shape} (h : a.tag < b.tag) : cmp a b = .lt := by
  cases a <;> cases b <;> simp [tag] at h <;> simp [cmp, tag] <;> decide

theorem tag_le_of_cmp_lt {a b : Shape} (h : cmp a b = .lt) : a.tag ≤ b.tag := by
  cases a <;> cases b <;> simp [tag] <;> (simp [cmp, tag] at h) <;> (revert h; decide)

theorem cmp_lt_trans_aux (n : Nat) :
    (∀ a b c : Shape, sizeOf a ≤ n → cmp a b = .lt → cmp b c = .lt → cmp a c = .lt) ∧
    (∀ a b c : List Shape, sizeOf a ≤ n → cmpList a b = .lt → cmpList b c = .lt → cmpList a c = .lt) ∧
    (∀ a b c : Members, sizeOf a ≤ n → cmpMembers a b = .lt → cmpMembers b c = .lt → cmpMembers a c = .lt) := by
  induction n with
  | zero =>
    refine ⟨?_, ?_, ?_⟩
    · intro a b c h; cases a <;> simp at h
    · intro a b c h; cases a <;> simp at h
    · intro a b c h; cases a <;> simp at h
  | succ n ih =>
    obtain ⟨ihS, ihL, ihM⟩ := ih
    refine ⟨?_, ?_, ?_⟩
    · intro a b c h h1 h2
      have t1 := tag_le_of_cmp_lt h1
      have t2 := tag_le_of_cmp_lt h2
      by_cases ht : a.tag < c.tag
      · exact cmp_of_tag_lt ht
      · have e1 : a.tag = b.tag := by omega
        have e2 : b.tag = c.tag := by omega
        cases a <;> cases b <;> simp only [tag] at e1 <;> (try omega) <;>
          cases c <;> simp only [tag] at e2 <;> (try omega)
        · simp only [cmp] at h1 h2 ⊢; exact compare_bool_lt_trans h1 h2
        · simp only [cmp] at h1 h2 ⊢; exact compare_bool_lt_trans h1 h2
        · simp only [cmp] at h1 h2 ⊢; exact compare_bool_lt_trans h1 h2
        · rename_i t o t' o' t'' o''
          simp only [cmp] at h1 h2 ⊢
          simp at h
          refine lex_lt_trans (ihS t t' t'' (by omega)) ?_ ?_ compare_bool_lt_trans h1 h2
          · intro he; rw [(cmp_eq_iff _ _).1 he]
          · intro he; rw [(cmp_eq_iff _ _).1 he]
        · rename_i t o t' o' t'' o''
          simp only [cmp] at h1 h2 ⊢
          simp at h
          refine lex_lt_trans (ihM t t' t'' (by omega)) ?_ ?_ compare_bool_lt_trans h1 h2
          · intro he; rw [(cmpMembers_eq_iff _ _).1 he]
          · intro he; rw [(cmpMembers_eq_iff _ _).1 he]
        · rename_i t o t' o' t'' o''
          simp only [cmp] at h1 h2 ⊢
          simp at h
          refine lex_lt_trans (ihL t t' t'' (by omega)) ?_ ?_ compare_bool_lt_trans h1 h2
          · intro he; rw [(cmpList_eq_iff _ _).1 he]
          · intro he; rw [(cmpList_eq_iff _ _).1 he]
        · rename_i t o t' o' t'' o''
          simp only [cmp] at h1 h2 ⊢
          simp at h
          refine lex_lt_trans (ihL t t' t'' (by omega)) ?_ ?_ compare_bool_lt_trans h1 h2
          · intro he; rw [(cmpList_eq_iff _ _).1 he]
          · intro he; rw [(cmpList_eq_iff _ _).1 he]
    · intro a b c h h1 h2
      cases a <;> cases b <;> cases c <;> simp [cmpList] at h1 h2 ⊢
      rename_i x xs y ys z zs
      simp at h
      have h1' : (cmp x y).then (cmpList xs ys) = .lt := by simpa [cmpList] using h1
      have h2' : (cmp y z).then (cmpList ys zs) = .lt := by simpa [cmpList] using h2
      have := lex_lt_trans (ihS x y z (by omega))
        (fun he => by rw [(cmp_eq_iff _ _).1 he]) (fun he => by rw [(cmp_eq_iff _ _).1 he])
        (ihL xs ys zs (by omega)) h1' h2'
      simpa [cmpList] using this
    · intro a b c h h1 h2
      cases a <;> cases b <;> cases c <;> simp [cmpMembers] at h1 h2 ⊢
      rename_i x xs y ys z zs
      obtain ⟨k, v⟩ := x; obtain ⟨k', v'⟩ := y; obtain ⟨k'', v''⟩ := z
      simp at h
      have h1' : ((compare k k').then (cmp v v')).then (cmpMembers xs ys) = .lt := by
        simpa [cmpMembers] using h1
      have h2' : ((compare k' k'').then (cmp v' v'')).then (cmpMembers ys zs) = .lt := by
        simpa [cmpMembers] using h2
      have hfirst : ∀ (_ : ((compare k k').then (cmp v v')) = .lt)
          (_ : ((compare k' k'').then (cmp v' v'')) = .lt),
          ((compare k k'').then (cmp v v'')) = .lt := fun a1 a2 =>
        lex_lt_trans compare_string_lt_trans
          (fun he => by rw [compare_eq_iff_eq.1 he]) (fun he => by rw [compare_eq_iff_eq.1 he])
          (ihS v v' v'' (by omega)) a1 a2
      have := lex_lt_trans hfirst
        (fun he => by
          rw [Ordering.then_eq_eq] at he
          rw [compare_eq_iff_eq.1 he.1, (cmp_eq_iff _ _).1 he.2])
        (fun he => by
          rw [Ordering.then_eq_eq] at he
          rw [compare_eq_iff_eq.1 he.1, (cmp_eq_iff _ _).1 he.2])
        (ihM xs ys zs (by omega)) h1' h2'
      simpa [cmpMembers] using this

theorem cmp_lt_trans {a b c : Shape} (h1 : cmp a b = .lt) (h2 : cmp b c = .lt) : cmp a c = .lt :=
  (cmp_lt_trans_aux (sizeOf a)).1 a b c (Nat.le_refl _) h1 h2

end ShapeVerif
