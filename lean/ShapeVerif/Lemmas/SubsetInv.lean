/-
Inversion and introduction lemmas for the model of `is_subset`, used by the completeness
properties (C03, C09). `plain` shapes contain no `OneOf` anywhere (every single-document shape).
-/
import ShapeVerif.Lemmas.Sorted
import ShapeVerif.Model.Subset
import ShapeVerif.Lemmas.Admits
namespace ShapeVerif
open Shape Std

/-- syntactic nullability as `is_subset` sees it: the optional flag (or `Null`), or a `OneOf` holding `Null` -/
def nullableSyn (s : Shape) : Bool := s.isOptional || isOneOfNull s

/-! ### inversion: what can be a subset of a non-`OneOf` shape -/

theorem sub_null_inv {s : Shape} (h : isSubset s .null = true) : s = .null := by
  cases s with
  | null => rfl
  | bool o => cases o <;> simp [isSubset, isBoolean, isOptional, isOneOfBool, isOneOfOptBool] at h
  | number o => cases o <;> simp [isSubset, isNumber, isOptional, isOneOfNumber, isOneOfOptNumber] at h
  | string o => cases o <;> simp [isSubset, isString, isOptional, isOneOfString, isOneOfOptString] at h
  | array t o => cases o <;> simp [isSubset] at h
  | object c o => cases o <;> simp [isSubset] at h
  | oneOf c o => cases o <;> simp [isSubset] at h
  | tuple c o => cases o <;> simp [isSubset] at h

theorem sub_bool_inv {s : Shape} {p : Bool} (h : isSubset s (.bool p) = true) :
    (∃ ps, s = .bool ps ∧ (ps = true → p = true)) ∨ (s = .null ∧ p = true) := by
  cases s with
  | null => right; simpa [isSubset, isOptional, isNull, isOneOfNull] using h
  | bool o =>
    left; refine ⟨o, rfl, ?_⟩
    cases o <;> simp [isSubset, isBoolean, isOptional, isOneOfOptBool] at h ⊢
    exact h
  | number o => cases o <;> simp [isSubset, isNumber, isOptional, isOneOfNumber, isOneOfOptNumber] at h
  | string o => cases o <;> simp [isSubset, isString, isOptional, isOneOfString, isOneOfOptString] at h
  | array t o => cases o <;> simp [isSubset] at h
  | object c o => cases o <;> simp [isSubset] at h
  | oneOf c o => cases o <;> simp [isSubset] at h
  | tuple c o => cases o <;> simp [isSubset] at h

theorem sub_number_inv {s : Shape} {p : Bool} (h : isSubset s (.number p) = true) :
    (∃ ps, s = .number ps ∧ (ps = true → p = true)) ∨ (s = .null ∧ p = true) := by
  cases s with
  | null => right; simpa [isSubset, isOptional, isNull, isOneOfNull] using h
  | number o =>
    left; refine ⟨o, rfl, ?_⟩
    cases o <;> simp [isSubset, isNumber, isOptional, isOneOfOptNumber] at h ⊢
    exact h
  | bool o => cases o <;> simp [isSubset, isBoolean, isOptional, isOneOfBool, isOneOfOptBool] at h
  | string o => cases o <;> simp [isSubset, isString, isOptional, isOneOfString, isOneOfOptString] at h
  | array t o => cases o <;> simp [isSubset] at h
  | object c o => cases o <;> simp [isSubset] at h
  | oneOf c o => cases o <;> simp [isSubset] at h
  | tuple c o => cases o <;> simp [isSubset] at h

theorem sub_string_inv {s : Shape} {p : Bool} (h : isSubset s (.string p) = true) :
    (∃ ps, s = .string ps ∧ (ps = true → p = true)) ∨ (s = .null ∧ p = true) := by
  cases s with
  | null => right; simpa [isSubset, isOptional, isNull, isOneOfNull] using h
  | string o =>
    left; refine ⟨o, rfl, ?_⟩
    cases o <;> simp [isSubset, isString, isOptional, isOneOfOptString] at h ⊢
    exact h
  | bool o => cases o <;> simp [isSubset, isBoolean, isOptional, isOneOfBool, isOneOfOptBool] at h
  | number o => cases o <;> simp [isSubset, isNumber, isOptional, isOneOfNumber, isOneOfOptNumber] at h
  | array t o => cases o <;> simp [isSubset] at h
  | object c o => cases o <;> simp [isSubset] at h
  | oneOf c o => cases o <;> simp [isSubset] at h
  | tuple c o => cases o <;> simp [isSubset] at h

theorem sub_array_inv {s t : Shape} {p : Bool} (h : isSubset s (.array t p) = true) :
    (∃ ts ps, s = .array ts ps ∧ isSubset ts t = true ∧ (ps = true → p = true)) ∨
    (∃ es ps, s = .tuple es ps ∧ (es.all fun e => isSubset e t) = true ∧ (ps = true → p = true)) ∨
    (s = .null ∧ p = true) := by
  cases s with
  | null => right; right; simpa [isSubset, isOptional, isNull, isOneOfNull] using h
  | array ts o =>
    left; refine ⟨ts, o, rfl, ?_⟩
    cases o <;> cases p <;> simp_all [isSubset]
  | tuple es o =>
    right; left; refine ⟨es, o, rfl, ?_⟩
    cases o <;> cases p <;> simp_all [isSubset]
  | bool o => cases o <;> simp [isSubset, isBoolean, isOptional, isOneOfBool, isOneOfOptBool] at h
  | number o => cases o <;> simp [isSubset, isNumber, isOptional, isOneOfNumber, isOneOfOptNumber] at h
  | string o => cases o <;> simp [isSubset, isString, isOptional, isOneOfString, isOneOfOptString] at h
  | object c o => cases o <;> simp [isSubset] at h
  | oneOf c o => cases o <;> simp [isSubset] at h

theorem sub_tuple_inv {s : Shape} {os : List Shape} {p : Bool} (h : isSubset s (.tuple os p) = true) :
    (∃ es ps, s = .tuple es ps ∧ zipAllSubset es os = true ∧ es.length = os.length ∧ (ps = true → p = true)) ∨
    (s = .null ∧ p = true) := by
  cases s with
  | null => right; simpa [isSubset, isOptional, isNull, isOneOfNull] using h
  | tuple es o =>
    left; refine ⟨es, o, rfl, ?_⟩
    cases o <;> cases p <;> simp_all [isSubset]
  | array ts o => cases o <;> simp [isSubset] at h
  | bool o => cases o <;> simp [isSubset, isBoolean, isOptional, isOneOfBool, isOneOfOptBool] at h
  | number o => cases o <;> simp [isSubset, isNumber, isOptional, isOneOfNumber, isOneOfOptNumber] at h
  | string o => cases o <;> simp [isSubset, isString, isOptional, isOneOfString, isOneOfOptString] at h
  | object c o => cases o <;> simp [isSubset] at h
  | oneOf c o => cases o <;> simp [isSubset] at h

/-- the two conditions of the `Object ⊆ Object` arm -/
def objSub (c oc : Members) : Bool :=
  oc.all (fun kv => mapContainsKey kv.1 c || kv.2.isOptional || isOneOfNull kv.2)
    && c.all (fun kv => lookupSubset kv.1 kv.2 oc)

theorem sub_object_inv {s : Shape} {oc : Members} {p : Bool} (h : isSubset s (.object oc p) = true) :
    (∃ c ps, s = .object c ps ∧ objSub c oc = true ∧ (ps = true → p = true)) ∨ (s = .null ∧ p = true) := by
  cases s with
  | null => right; simpa [isSubset, isOptional, isNull, isOneOfNull] using h
  | object c o =>
    left; refine ⟨c, o, rfl, ?_⟩
    cases o <;> cases p <;> simp_all [isSubset, objSub]
  | tuple es o => cases o <;> simp [isSubset] at h
  | array ts o => cases o <;> simp [isSubset] at h
  | bool o => cases o <;> simp [isSubset, isBoolean, isOptional, isOneOfBool, isOneOfOptBool] at h
  | number o => cases o <;> simp [isSubset, isNumber, isOptional, isOneOfNumber, isOneOfOptNumber] at h
  | string o => cases o <;> simp [isSubset, isString, isOptional, isOneOfString, isOneOfOptString] at h
  | oneOf c o => cases o <;> simp [isSubset] at h

/-! ### introduction -/

theorem sub_array_array {ts t : Shape} {ps p : Bool} (h : isSubset ts t = true) (hp : ps = true → p = true) :
    isSubset (.array ts ps) (.array t p) = true := by
  cases ps <;> cases p <;> simp_all [isSubset]

theorem sub_tuple_array {es : List Shape} {t : Shape} {ps p : Bool}
    (h : (es.all fun e => isSubset e t) = true) (hp : ps = true → p = true) :
    isSubset (.tuple es ps) (.array t p) = true := by
  cases ps <;> cases p <;> simp_all [isSubset]

theorem sub_tuple_tuple {es os : List Shape} {ps p : Bool} (h : zipAllSubset es os = true)
    (hl : es.length = os.length) (hp : ps = true → p = true) :
    isSubset (.tuple es ps) (.tuple os p) = true := by
  cases ps <;> cases p <;> simp_all [isSubset]

theorem sub_object_object {c oc : Members} {ps p : Bool} (h : objSub c oc = true) (hp : ps = true → p = true) :
    isSubset (.object c ps) (.object oc p) = true := by
  cases ps <;> cases p <;> simp_all [isSubset, objSub]

theorem anySuperset_of_mem {s v : Shape} {ws : List Shape} (hv : v ∈ ws) (h : isSubset s v = true) :
    anySuperset s ws = true := by
  induction ws with
  | nil => cases hv
  | cons w ws ih =>
    simp only [anySuperset, Bool.or_eq_true]
    rcases List.mem_cons.1 hv with rfl | hv
    · exact Or.inl h
    · exact Or.inr (ih hv)

theorem anySuperset_iff {s : Shape} {ws : List Shape} :
    anySuperset s ws = true ↔ ∃ v ∈ ws, isSubset s v = true := by
  induction ws with
  | nil => simp [anySuperset]
  | cons w ws ih => simp [anySuperset, ih]

theorem anyObjectSuperset_iff {s : Shape} {ws : List Shape} :
    anyObjectSuperset s ws = true ↔ ∃ v ∈ ws, v.isObject = true ∧ isSubset s v = true := by
  induction ws with
  | nil => simp [anyObjectSuperset]
  | cons w ws ih => simp [anyObjectSuperset, ih]

end ShapeVerif
