/-
Byte offsets on character boundaries, and `sliceBytes` (`&source[a..b]`): it succeeds exactly on
ordered pairs of boundaries and returns the characters between them.
-/
import ShapeVerif.Model.ParseCst
namespace ShapeVerif

theorem utf8Len_foldl (cs : List Char) (n : Nat) :
    cs.foldl (fun n c => n + c.utf8Size) n = n + utf8Len cs := by
  unfold utf8Len
  induction cs generalizing n with
  | nil => simp
  | cons c cs ih => simp only [List.foldl_cons]; rw [ih, ih (0 + c.utf8Size)]; omega

@[simp] theorem utf8Len_nil : utf8Len [] = 0 := rfl

@[simp] theorem utf8Len_cons (c : Char) (cs : List Char) : utf8Len (c :: cs) = c.utf8Size + utf8Len cs := by
  unfold utf8Len
  simp only [List.foldl_cons]
  rw [utf8Len_foldl]; simp [utf8Len]

@[simp] theorem utf8Len_append (a b : List Char) : utf8Len (a ++ b) = utf8Len a + utf8Len b := by
  induction a with
  | nil => simp
  | cons c a ih => simp [ih]; omega

theorem utf8Size_pos' (c : Char) : 1 ≤ c.utf8Size := Char.utf8Size_pos c

theorem utf8Len_pos_of_ne_nil {cs : List Char} (h : cs ≠ []) : 1 ≤ utf8Len cs := by
  cases cs with
  | nil => exact absurd rfl h
  | cons c cs => have := utf8Size_pos' c; simp; omega

/-- `n` is the byte offset of a character boundary of `src` -/
def Boundary (src : List Char) (n : Nat) : Prop := ∃ p s, src = p ++ s ∧ utf8Len p = n

theorem boundary_zero (src : List Char) : Boundary src 0 := ⟨[], src, rfl, rfl⟩

theorem boundary_len (src : List Char) : Boundary src (utf8Len src) := ⟨src, [], by simp, rfl⟩

/-- the prefix of a given byte length is unique -/
theorem prefix_unique : ∀ {p p' s s' : List Char}, p ++ s = p' ++ s' → utf8Len p = utf8Len p' → p = p' ∧ s = s'
  | [], [], _, _, h, _ => ⟨rfl, by simpa using h⟩
  | [], c :: p', _, _, _, hl => by have := utf8Size_pos' c; simp at hl; omega
  | c :: p, [], _, _, _, hl => by have := utf8Size_pos' c; simp at hl; omega
  | c :: p, c' :: p', s, s', h, hl => by
    simp only [List.cons_append, List.cons.injEq] at h
    obtain ⟨rfl, h⟩ := h
    simp only [utf8Len_cons] at hl
    have := prefix_unique h (by omega)
    exact ⟨by rw [this.1], this.2⟩

/-- collecting phase of the loop of `sliceBytes` -/
theorem sliceBytes_go_collect (start stop : Nat) (hss : start ≤ stop) :
    ∀ (m s acc : List Char) (pos : Nat), start ≤ pos → pos + utf8Len m = stop →
      sliceBytes.go start stop (m ++ s) pos acc = some (acc.reverse ++ m)
  | [], s, acc, pos, _, hm => by
    simp only [utf8Len_nil, Nat.add_zero] at hm
    subst hm
    unfold sliceBytes.go
    simp [hss]
  | c :: m, s, acc, pos, hp, hm => by
    have hc := utf8Size_pos' c
    simp only [utf8Len_cons] at hm
    unfold sliceBytes.go
    have h1 : (pos == stop) = false := by simp; omega
    have h2 : ¬ pos < start := by omega
    have h3 : ¬ pos + c.utf8Size > stop := by omega
    simp only [h1, Bool.false_eq_true, if_false, List.cons_append, h2, h3]
    rw [sliceBytes_go_collect start stop hss m s (c :: acc) (pos + c.utf8Size) (by omega) (by omega)]
    simp

/-- skipping phase -/
theorem sliceBytes_go_skip (start stop : Nat) (hss : start ≤ stop) :
    ∀ (p m s acc : List Char) (pos : Nat), pos + utf8Len p = start → start + utf8Len m = stop →
      sliceBytes.go start stop (p ++ m ++ s) pos acc = some (acc.reverse ++ m)
  | [], m, s, acc, pos, hp, hm => by
    simp only [utf8Len_nil, Nat.add_zero] at hp
    subst hp
    simpa using sliceBytes_go_collect pos stop hss m s acc pos (Nat.le_refl _) hm
  | c :: p, m, s, acc, pos, hp, hm => by
    have hc := utf8Size_pos' c
    simp only [utf8Len_cons] at hp
    unfold sliceBytes.go
    have h1 : (pos == stop) = false := by simp; omega
    have h2 : pos < start := by omega
    have h3 : ¬ pos + c.utf8Size > start := by omega
    simp only [h1, Bool.false_eq_true, if_false, List.cons_append, h2, if_true, h3]
    exact sliceBytes_go_skip start stop hss p m s acc (pos + c.utf8Size) (by omega) hm

/-- `&src[a..b]` on `p ++ m ++ s` at the offsets of `m` -/
theorem sliceBytes_of_split (p m s : List Char) :
    sliceBytes (p ++ m ++ s) (utf8Len p) (utf8Len p + utf8Len m) = some m := by
  unfold sliceBytes
  have h : ¬ utf8Len p > utf8Len p + utf8Len m := by omega
  simp only [h, if_false]
  simpa using sliceBytes_go_skip (utf8Len p) (utf8Len p + utf8Len m) (by omega) p m s [] 0 (by simp) rfl

theorem prefix_of_le : ∀ (p q s t : List Char), p ++ s = q ++ t → utf8Len p ≤ utf8Len q → ∃ m, q = p ++ m
  | [], q, _, _, _, _ => ⟨q, rfl⟩
  | c :: p, [], _, _, _, hl => by have := utf8Size_pos' c; simp at hl; omega
  | c :: p, c' :: q, s, t, h, hl => by
    simp only [List.cons_append, List.cons.injEq] at h
    obtain ⟨rfl, h⟩ := h
    simp only [utf8Len_cons] at hl
    obtain ⟨m, hm⟩ := prefix_of_le p q s t h (by omega)
    exact ⟨m, by rw [hm]; rfl⟩

/-- two boundaries in order can be sliced -/
theorem sliceBytes_of_boundaries {src : List Char} {a b : Nat} (ha : Boundary src a) (hb : Boundary src b)
    (hab : a ≤ b) : ∃ m, sliceBytes src a b = some m ∧ utf8Len m = b - a := by
  obtain ⟨p, s, hs, hp⟩ := ha
  obtain ⟨q, t, ht, hq⟩ := hb
  obtain ⟨m, rfl⟩ := prefix_of_le p q s t (by rw [← hs, ← ht]) (by omega)
  refine ⟨m, ?_, by simp at hq; omega⟩
  have e : src = p ++ m ++ t := ht
  rw [e, ← hp, show b = utf8Len p + utf8Len m by simp at hq; omega]
  exact sliceBytes_of_split p m t

theorem sliceBytes_go_collect_spec (start stop : Nat) :
    ∀ (cs acc r : List Char) (pos : Nat), start ≤ pos → sliceBytes.go start stop cs pos acc = some r →
      ∃ m s, cs = m ++ s ∧ r = acc.reverse ++ m ∧ pos + utf8Len m = stop
  | [], acc, r, pos, _, h => by
    unfold sliceBytes.go at h
    split at h
    · rename_i he; simp at he; split at h
      · cases h; exact ⟨[], [], rfl, by simp, by simpa using he⟩
      · cases h
    · cases h
  | c :: cs, acc, r, pos, hp, h => by
    unfold sliceBytes.go at h
    split at h
    · rename_i he; simp at he; split at h
      · cases h; exact ⟨[], c :: cs, rfl, by simp, by simpa using he⟩
      · cases h
    · have h2 : ¬ pos < start := by omega
      simp only [h2, if_false] at h
      split at h
      · cases h
      · obtain ⟨m, s, e1, e2, e3⟩ := sliceBytes_go_collect_spec start stop cs (c :: acc) r _ (by omega) h
        exact ⟨c :: m, s, by rw [e1]; rfl, by rw [e2]; simp, by simp; omega⟩

theorem sliceBytes_go_skip_spec (start stop : Nat) :
    ∀ (cs acc r : List Char) (pos : Nat), pos ≤ start → sliceBytes.go start stop cs pos acc = some r →
      ∃ p m s, cs = p ++ m ++ s ∧ r = acc.reverse ++ m ∧ pos + utf8Len p = start ∧ start + utf8Len m = stop
  | [], acc, r, pos, _, h => by
    unfold sliceBytes.go at h
    split at h
    · rename_i he; simp at he; split at h
      · cases h; exact ⟨[], [], [], rfl, by simp, by simp; omega, by simp; omega⟩
      · cases h
    · cases h
  | c :: cs, acc, r, pos, hp, h => by
    by_cases hlt : pos < start
    · unfold sliceBytes.go at h
      split at h
      · rename_i he; simp at he; split at h
        · omega
        · cases h
      · simp only [hlt, if_true] at h
        split at h
        · cases h
        · rename_i hle
          obtain ⟨p, m, s, e1, e2, e3, e4⟩ := sliceBytes_go_skip_spec start stop cs acc r _ (by omega) h
          exact ⟨c :: p, m, s, by rw [e1]; rfl, e2, by simp; omega, e4⟩
    · have : pos = start := by omega
      subst this
      obtain ⟨m, s, e1, e2, e3⟩ := sliceBytes_go_collect_spec pos stop (c :: cs) acc r pos (Nat.le_refl _) h
      exact ⟨[], m, s, by simpa using e1, e2, by simp, e3⟩

/-- what a successful slice means: the characters between two boundaries -/
theorem sliceBytes_spec {src : List Char} {a b : Nat} {m : List Char} (h : sliceBytes src a b = some m) :
    ∃ p s, src = p ++ m ++ s ∧ utf8Len p = a ∧ a + utf8Len m = b := by
  unfold sliceBytes at h
  split at h
  · cases h
  · obtain ⟨p, m', s, e1, e2, e3, e4⟩ := sliceBytes_go_skip_spec a b src [] m 0 (Nat.zero_le _) h
    simp at e2 e3
    subst e2
    exact ⟨p, s, e1, e3, e4⟩

theorem boundary_of_slice {src : List Char} {a b : Nat} {m : List Char} (h : sliceBytes src a b = some m) :
    Boundary src a ∧ Boundary src b ∧ a ≤ b := by
  obtain ⟨p, s, e, h1, h2⟩ := sliceBytes_spec h
  exact ⟨⟨p, m ++ s, by rw [e]; simp, h1⟩, ⟨p ++ m, s, e, by simp; omega⟩, by omega⟩

end ShapeVerif
