/-
`parse_cst` on any tree whose leaves are an ordered chain of well-formed tokens: no slice ever falls
outside the text or inside a character (no panic), and every `InvalidJson` error carries exactly the
text at its range.
-/
import ShapeVerif.Lemmas.LexInv
import ShapeVerif.Lemmas.ParseYield
namespace ShapeVerif
open Shape

def ListOk (src : List Char) (l : List Token) : Prop :=
  (∀ t ∈ l, TokOk src t) ∧ l.Pairwise (fun a b => a.stop ≤ b.start)

theorem ListOk.nil (src : List Char) : ListOk src [] := ⟨by simp, List.Pairwise.nil⟩

theorem ListOk.append_left {src : List Char} {a b : List Token} (h : ListOk src (a ++ b)) : ListOk src a :=
  ⟨fun t ht => h.1 t (by simp [ht]), (List.pairwise_append.1 h.2).1⟩

theorem ListOk.append_right {src : List Char} {a b : List Token} (h : ListOk src (a ++ b)) : ListOk src b :=
  ⟨fun t ht => h.1 t (by simp [ht]), (List.pairwise_append.1 h.2).2.1⟩

/-! ### first and last token of a node -/

theorem firstTokStart_eq (n : Nat) :
    (∀ node, sizeOf node ≤ n → firstTokStart node = (leaves node).head?.map (·.start)) ∧
    (∀ ns : List Node, sizeOf ns ≤ n → firstTokStartList ns = (leavesList ns).head?.map (·.start)) := by
  induction n with
  | zero =>
    exact ⟨fun node h => by cases node <;> simp at h, fun ns h => by cases ns <;> simp at h⟩
  | succ n ih =>
    refine ⟨?_, ?_⟩
    · intro node hn
      cases node with
      | tok k s e => simp [firstTokStart, leaves]
      | rule r cs => simp only [firstTokStart, leaves]; exact ih.2 cs (by simp at hn; omega)
    · intro ns hn
      cases ns with
      | nil => simp [firstTokStartList, leavesList]
      | cons a l =>
        simp only [firstTokStartList, leavesList]
        rw [ih.1 a (by simp at hn; omega), ih.2 l (by simp at hn; omega)]
        cases h : leaves a with
        | nil => simp
        | cons t ts => simp

theorem lastTokStop_eq (n : Nat) :
    (∀ node, sizeOf node ≤ n → lastTokStop node = (leaves node).getLast?.map (·.stop)) ∧
    (∀ ns : List Node, sizeOf ns ≤ n → lastTokStopList ns = (leavesList ns).getLast?.map (·.stop)) := by
  induction n with
  | zero =>
    exact ⟨fun node h => by cases node <;> simp at h, fun ns h => by cases ns <;> simp at h⟩
  | succ n ih =>
    refine ⟨?_, ?_⟩
    · intro node hn
      cases node with
      | tok k s e => simp [lastTokStop, leaves]
      | rule r cs => simp only [lastTokStop, leaves]; exact ih.2 cs (by simp at hn; omega)
    · intro ns hn
      cases ns with
      | nil => simp [lastTokStopList, leavesList]
      | cons a l =>
        simp only [lastTokStopList, leavesList]
        rw [ih.1 a (by simp at hn; omega), ih.2 l (by simp at hn; omega)]
        cases h : leavesList l with
        | nil => simp
        | cons t ts =>
          cases hg : (t :: ts).getLast? with
          | none => simp at hg
          | some b => simp [List.getLast?_append, hg]

theorem firstTokStart_leaves (node : Node) : firstTokStart node = (leaves node).head?.map (·.start) :=
  (firstTokStart_eq (sizeOf node)).1 node (Nat.le_refl _)

theorem lastTokStop_leaves (node : Node) : lastTokStop node = (leaves node).getLast?.map (·.stop) :=
  (lastTokStop_eq (sizeOf node)).1 node (Nat.le_refl _)

/-- in an ordered chain of non-empty tokens the first start is at most the last stop -/
theorem chain_first_le_last {src : List Char} : ∀ {l : List Token} {a b : Token}, ListOk src l →
    l.head? = some a → l.getLast? = some b → a.start ≤ b.stop
  | [], _, _, _, h, _ => by simp at h
  | [t], a, b, hl, h1, h2 => by
    have e1 : t = a := by simpa using h1
    have e2 : t = b := by simpa using h2
    subst e1; subst e2
    have := (hl.1 t (by simp)).lt; omega
  | t :: u :: l, a, b, hl, h1, h2 => by
    simp only [List.head?_cons, Option.some.injEq] at h1
    subst h1
    have hb : b ∈ u :: l := by
      rw [List.getLast?_cons_cons] at h2
      exact List.mem_of_getLast? h2
    have h3 := (List.pairwise_cons.1 hl.2).1 b hb
    have h4 := (hl.1 b (by simp [hb])).lt
    have h5 := (hl.1 t (by simp)).lt
    omega

def Sliceable (src : List Char) (sp : Nat × Nat) : Prop := ∃ m, sliceBytes src sp.1 sp.2 = some m

theorem nodeSpan_sliceable {src : List Char} {prevEnd : Nat} {node : Node} (hb : Boundary src prevEnd)
    (hl : ListOk src (leaves node)) : Sliceable src (nodeSpan prevEnd node) := by
  cases node with
  | tok k s e =>
    have := hl.1 ⟨k, s, e⟩ (by simp [leaves])
    obtain ⟨m, hm, _⟩ := sliceBytes_of_boundaries this.bs this.be (Nat.le_of_lt this.lt)
    exact ⟨m, hm⟩
  | rule r cs =>
    simp only [nodeSpan]
    rw [firstTokStart_leaves, lastTokStop_leaves]
    cases h1 : (leaves (.rule r cs)).head? with
    | none =>
      obtain ⟨m, hm, _⟩ := sliceBytes_of_boundaries hb hb (Nat.le_refl _)
      exact ⟨m, by simpa using hm⟩
    | some a =>
      cases h2 : (leaves (.rule r cs)).getLast? with
      | none =>
        obtain ⟨m, hm, _⟩ := sliceBytes_of_boundaries hb hb (Nat.le_refl _)
        exact ⟨m, by simpa using hm⟩
      | some b =>
        have ha := hl.1 a (List.mem_of_head? h1)
        have hb' := hl.1 b (List.mem_of_getLast? h2)
        obtain ⟨m, hm, _⟩ := sliceBytes_of_boundaries ha.bs hb'.be (chain_first_le_last hl h1 h2)
        exact ⟨m, by simpa using hm⟩

theorem nodeEnd_boundary {src : List Char} {prevEnd : Nat} {node : Node} (hb : Boundary src prevEnd)
    (hl : ListOk src (leaves node)) : Boundary src (nodeEnd prevEnd node) := by
  unfold nodeEnd
  rw [lastTokStop_leaves]
  cases h2 : (leaves node).getLast? with
  | none => simpa using hb
  | some b => simpa using (hl.1 b (List.mem_of_getLast? h2)).be

/-! ### outcomes that neither panic nor misreport a range -/

def Good {α : Type} (src : List Char) (o : Outcome α) : Prop :=
  o ≠ .panic ∧ ∀ v s e, o = .err (.invalidJson v s e) → sliceBytes src s e = some v.toList

theorem good_ok {α : Type} (src : List Char) (a : α) : Good src (Outcome.ok a) :=
  ⟨(by intro h; cases h), (by intro v s e h; cases h)⟩

theorem good_err_other {α : Type} (src : List Char) (e : PErr) (h : ∀ v s t, e ≠ .invalidJson v s t) :
    Good src (Outcome.err e : Outcome α) :=
  ⟨(by intro h'; cases h'), (by intro v s t h'; cases h'; exact absurd rfl (h v s t))⟩

theorem invalidJsonAt_good {src : List Char} {sp : Nat × Nat} (h : Sliceable src sp) :
    Good src (invalidJsonAt src sp) := by
  obtain ⟨m, hm⟩ := h
  unfold invalidJsonAt
  rw [hm]
  exact ⟨(by intro h; cases h), (by intro v s e h; cases h; simpa using hm)⟩

theorem findSpan_sliceable {src : List Char} (p : Node → Bool) :
    ∀ (cs : List Node) (prevEnd : Nat) (sp : Nat × Nat), Boundary src prevEnd → ListOk src (leavesList cs) →
      findSpan p prevEnd cs = some sp → Sliceable src sp
  | [], _, _, _, _, h => by simp [findSpan] at h
  | n :: ns, prevEnd, sp, hb, hl, h => by
    simp only [leavesList] at hl
    simp only [findSpan] at h
    split at h
    · cases h; exact nodeSpan_sliceable hb hl.append_left
    · exact findSpan_sliceable p ns _ sp (nodeEnd_boundary hb hl.append_left) hl.append_right h

theorem hasErrors_good {src : List Char} {cs : List Node} {prevEnd : Nat} (hb : Boundary src prevEnd)
    (hl : ListOk src (leavesList cs)) : Good src (hasErrors src prevEnd cs) := by
  unfold hasErrors
  cases h : findSpan isErrorNode prevEnd cs with
  | none => exact good_ok src ()
  | some sp =>
    obtain ⟨s, e⟩ := sp
    obtain ⟨m, hm⟩ := findSpan_sliceable isErrorNode cs prevEnd (s, e) hb hl h
    simp only at hm ⊢
    rw [hm]
    exact ⟨(by intro h; cases h), (by intro v s e h; cases h; simpa using hm)⟩

theorem leaves_subset_of_mem : ∀ {cs : List Node} {n : Node}, n ∈ cs → ∀ t ∈ leaves n, t ∈ leavesList cs
  | [], _, h, _, _ => by cases h
  | a :: l, n, h, t, ht => by
    simp only [leavesList, List.mem_append]
    rcases List.mem_cons.1 h with rfl | h
    · exact .inl ht
    · exact .inr (leaves_subset_of_mem h t ht)

theorem findNode_spec {src : List Char} (p : Node → Bool) :
    ∀ (cs : List Node) (prevEnd : Nat) (n : Node) (pe : Nat), Boundary src prevEnd → ListOk src (leavesList cs) →
      findNode p prevEnd cs = some (n, pe) → n ∈ cs ∧ p n = true ∧ Boundary src pe
  | [], _, _, _, _, _, h => by simp [findNode] at h
  | a :: l, prevEnd, n, pe, hb, hl, h => by
    simp only [leavesList] at hl
    simp only [findNode] at h
    split at h
    · rename_i hp; cases h; exact ⟨by simp, hp, hb⟩
    · obtain ⟨h1, h2, h3⟩ := findNode_spec p l _ n pe (nodeEnd_boundary hb hl.append_left) hl.append_right h
      exact ⟨by simp [h1], h2, h3⟩

theorem listOk_of_mem {src : List Char} {cs : List Node} {n : Node} (hl : ListOk src (leavesList cs))
    (hn : n ∈ cs) : ListOk src (leaves n) := by
  induction cs with
  | nil => cases hn
  | cons a l ih =>
    simp only [leavesList] at hl
    rcases List.mem_cons.1 hn with rfl | h
    · exact hl.append_left
    · exact ih hl.append_right h

theorem parseToken_good (src : List Char) (n : Node) : Good src (parseToken n) := by
  unfold parseToken
  split <;> first | exact good_ok src _ | exact good_err_other src _ (by intro v s t h; cases h)

theorem good_bind {α β : Type} {src : List Char} {o : Outcome α} (ho : Good src o) (f : α → Outcome β)
    (hf : ∀ a, o = .ok a → Good src (f a)) :
    Good src (match o with | .err e => .err e | .panic => .panic | .ok a => f a) := by
  cases o with
  | ok a => exact hf a rfl
  | err e =>
    refine ⟨(by intro h; cases h), ?_⟩
    intro v s t h
    cases h
    exact ho.2 v s t rfl
  | panic => exact absurd rfl ho.1

theorem good_err_cast {α β : Type} {src : List Char} {e : PErr} (h : Good src (Outcome.err e : Outcome α)) :
    Good src (Outcome.err e : Outcome β) :=
  ⟨(by intro h'; cases h'), (by intro v s t h'; cases h'; exact h.2 v s t rfl)⟩

theorem good_bind_unit {β : Type} {src : List Char} {o : Outcome Unit} (ho : Good src o) (x : Outcome β)
    (hx : Good src x) :
    Good src (match o with | .err e => .err e | .panic => .panic | .ok () => x) := by
  cases o with
  | ok a => exact hx
  | err e =>
    refine ⟨(by intro h; cases h), ?_⟩
    intro v s t h
    cases h
    exact ho.2 v s t rfl
  | panic => exact absurd rfl ho.1

/-- the five mutually recursive functions of `parse_cst`, by induction on a size bound -/
theorem cst_good (src : List Char) (n : Nat) :
    (∀ node : Node, sizeOf node ≤ n → ∀ prevEnd, ListOk src (leaves node) → Boundary src prevEnd →
      Good src (parseRule src prevEnd node)) ∧
    (∀ ns : List Node, sizeOf ns ≤ n → ∀ prevEnd, ListOk src (leavesList ns) → Boundary src prevEnd →
      Good src (parseElements src prevEnd ns)) ∧
    (∀ ns : List Node, sizeOf ns ≤ n → ∀ prevEnd content, ListOk src (leavesList ns) → Boundary src prevEnd →
      Good src (parseMembers src prevEnd ns content)) ∧
    (∀ ns : List Node, sizeOf ns ≤ n → ∀ prevEnd content, ListOk src (leavesList ns) → Boundary src prevEnd →
      Good src (parseMember src prevEnd ns content)) ∧
    (∀ ns : List Node, sizeOf ns ≤ n → ∀ prevEnd r, ListOk src (leavesList ns) → Boundary src prevEnd →
      findMemberValue src prevEnd ns = some r → Good src r) := by
  induction n with
  | zero =>
    refine ⟨?_, ?_, ?_, ?_, ?_⟩
    · intro node h; cases node <;> simp at h
    all_goals (intro ns h; cases ns <;> simp at h)
  | succ n ih =>
    obtain ⟨ihR, ihE, ihMs, ihM, ihF⟩ := ih
    -- findMemberValue first: parseMember calls it on the same list
    have hF : ∀ ns : List Node, sizeOf ns ≤ n + 1 → ∀ prevEnd r, ListOk src (leavesList ns) →
        Boundary src prevEnd → findMemberValue src prevEnd ns = some r → Good src r := by
      intro ns
      induction ns with
      | nil => intro _ _ _ _ _ h; simp [findMemberValue] at h
      | cons a l ihl =>
        intro hn prevEnd r hl hb h
        simp only [leavesList] at hl
        simp only [findMemberValue] at h
        split at h
        · cases h
          exact ihR a (by simp at hn; omega) prevEnd hl.append_left hb
        · exact ihl (by simp at hn ⊢; omega) _ r hl.append_right (nodeEnd_boundary hb hl.append_left) h
    have hM : ∀ ns : List Node, sizeOf ns ≤ n + 1 → ∀ prevEnd content, ListOk src (leavesList ns) →
        Boundary src prevEnd → Good src (parseMember src prevEnd ns content) := by
      intro ns hn prevEnd content hl hb
      unfold parseMember
      cases hk : findNode isStringTok prevEnd ns with
      | none => exact good_err_other src _ (by intro v s t h; cases h)
      | some kp =>
        obtain ⟨keyNode, kPrev⟩ := kp
        obtain ⟨hmem, hp, hkb⟩ := findNode_spec isStringTok ns prevEnd keyNode kPrev hb hl hk
        simp only
        cases keyNode with
        | rule r cs => simp [isStringTok] at hp
        | tok k s e =>
          have hk' : k = .string := by cases k <;> simp [isStringTok] at hp ⊢
          subst hk'
          have htok := hl.1 ⟨.string, s, e⟩ (leaves_subset_of_mem hmem _ (by simp [leaves]))
          obtain ⟨text, hsl, hlen⟩ := htok.str rfl
          simp only [nodeSpan, hsl]
          have : ¬ text.length < 2 := by omega
          simp only [this, if_false]
          refine good_bind_unit (hasErrors_good hb hl) _ ?_
          cases hv : findMemberValue src prevEnd ns with
          | none => exact good_err_other src _ (by intro v s t h; cases h)
          | some r =>
            simp only
            have hr := hF ns hn prevEnd r hl hb hv
            cases r with
            | panic => exact absurd rfl hr.1
            | err e => exact good_err_cast hr
            | ok value =>
              simp only
              split
              · exact good_ok src _
              · rename_i e he
                refine good_err_other src _ ?_
                intro v s t h
                cases e <;> simp [inferErrToPErr] at h
    refine ⟨?_, ?_, ?_, hM, hF⟩
    · -- parseRule
      intro node hn prevEnd hl hb
      have hother : Good src (invalidJsonAt src (nodeSpan prevEnd node)) :=
        invalidJsonAt_good (nodeSpan_sliceable hb hl)
      cases node with
      | tok k s e => (unfold parseRule; exact hother)
      | rule r cs =>
        have hcs : ListOk src (leavesList cs) := by simpa [leaves] using hl
        have hsz : sizeOf cs ≤ n := by simp at hn; omega
        cases r with
        | literal =>
          unfold parseRule
          refine good_bind_unit (hasErrors_good hb hcs) _ ?_
          split
          · exact parseToken_good src _
          · exact good_err_other src _ (by intro v s t h; cases h)
        | boolean => unfold parseRule; exact good_ok src _
        | array =>
          unfold parseRule
          refine good_bind_unit (hasErrors_good hb hcs) _ ?_
          have hE := ihE cs hsz prevEnd hcs hb
          cases hpe : parseElements src prevEnd cs with
          | panic => exact absurd hpe hE.1
          | err e => rw [hpe] at hE; exact good_err_cast hE
          | ok elements =>
            simp only
            split
            · exact good_ok src _
            · rename_i e he
              refine good_err_other src _ ?_
              intro v s t h
              cases e <;> simp [inferErrToPErr] at h
        | object =>
          unfold parseRule
          refine good_bind_unit (hasErrors_good hb hcs) _ ?_
          have hE := ihMs cs hsz prevEnd [] hcs hb
          cases hpe : parseMembers src prevEnd cs [] with
          | panic => exact absurd hpe hE.1
          | err e => rw [hpe] at hE; exact good_err_cast hE
          | ok content => exact good_ok src _
        | error => (unfold parseRule; exact hother)
        | file => (unfold parseRule; exact hother)
        | member => (unfold parseRule; exact hother)
        | value => (unfold parseRule; exact hother)
    · -- parseElements
      intro ns
      induction ns with
      | nil => intro _ _ _ _; unfold parseElements; exact good_ok src _
      | cons a l ihl =>
        intro hn prevEnd hl hb
        simp only [leavesList] at hl
        have hb' := nodeEnd_boundary hb hl.append_left
        have hrest := ihl (by simp at hn ⊢; omega) (nodeEnd prevEnd a) hl.append_right hb'
        unfold parseElements
        split
        · exact hrest
        · have hA := ihR a (by simp at hn; omega) prevEnd hl.append_left hb
          cases hpa : parseRule src prevEnd a with
          | panic => exact absurd hpa hA.1
          | err e => rw [hpa] at hA; exact good_err_cast hA
          | ok s =>
            simp only
            cases hpr : parseElements src (nodeEnd prevEnd a) l with
            | panic => exact absurd hpr hrest.1
            | err e => rw [hpr] at hrest; exact good_err_cast hrest
            | ok ss => exact good_ok src _
    · -- parseMembers
      intro ns
      induction ns with
      | nil => intro _ _ _ _ _; unfold parseMembers; exact good_ok src _
      | cons a l ihl =>
        intro hn prevEnd content hl hb
        simp only [leavesList] at hl
        have hb' := nodeEnd_boundary hb hl.append_left
        have hrest := fun c => ihl (by simp at hn ⊢; omega) (nodeEnd prevEnd a) c hl.append_right hb'
        unfold parseMembers
        split
        · rename_i cs
          have hcs : ListOk src (leavesList cs) := by simpa [leaves] using hl.append_left
          have hA := ihM cs (by simp at hn; omega) prevEnd content hcs hb
          cases hpa : parseMember src prevEnd cs content with
          | panic => exact absurd hpa hA.1
          | err e => rw [hpa] at hA; exact good_err_cast hA
          | ok content' => exact hrest content'
        · exact hrest content

end ShapeVerif
