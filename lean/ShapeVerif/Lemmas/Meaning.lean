/-
Congruence lemmas for "admits the same documents".
-/
import ShapeVerif.Lemmas.InferSound
namespace ShapeVerif
open Shape Std

theorem meaningEq_refl (a : Shape) : meaningEq a a := fun _ => rfl
theorem meaningEq_symm {a b : Shape} (h : meaningEq a b) : meaningEq b a := fun d => (h d).symm
theorem meaningEq_trans {a b c : Shape} (h1 : meaningEq a b) (h2 : meaningEq b c) : meaningEq a c :=
  fun d => (h1 d).trans (h2 d)

theorem bool_eq_of_iff {a b : Bool} (h : a = true ↔ b = true) : a = b := by
  cases a <;> cases b <;> simp_all

theorem admitsAny_congr_mem {vs ws : List Shape} (h : ∀ v, v ∈ vs ↔ v ∈ ws) (d : Doc) :
    admitsAny vs d = admitsAny ws d := by
  apply bool_eq_of_iff
  rw [admitsAny_iff, admitsAny_iff]
  constructor
  · rintro ⟨v, hv, hd⟩; exact ⟨v, (h v).1 hv, hd⟩
  · rintro ⟨v, hv, hd⟩; exact ⟨v, (h v).2 hv, hd⟩

theorem meaningEq_oneOf_of_mem {vs ws : List Shape} {o : Bool} (h : ∀ v, v ∈ vs ↔ v ∈ ws) :
    meaningEq (.oneOf vs o) (.oneOf ws o) := by
  intro d; rw [admits_oneOf, admits_oneOf, admitsAny_congr_mem h]

theorem meaningEq_array {t t' : Shape} {o : Bool} (h : meaningEq t t') :
    meaningEq (.array t o) (.array t' o) := by
  intro d
  cases d <;> simp [admits]
  rename_i xs
  apply bool_eq_of_iff
  simp only [List.all_eq_true]
  constructor
  · intro hx x hxm; rw [← h x]; exact hx x hxm
  · intro hx x hxm; rw [h x]; exact hx x hxm

theorem admitsZip_congr : ∀ {es es' : List Shape}, Pointwise meaningEq es es' → ∀ xs,
    admitsZip es xs = admitsZip es' xs
  | [], [], _, xs => rfl
  | [], _ :: _, h, _ => by cases h
  | _ :: _, [], h, _ => by cases h
  | e :: es, e' :: es', h, xs => by
    cases xs with
    | nil => simp [admitsZip]
    | cons x xs => simp only [admitsZip, h.1 x, admitsZip_congr h.2 xs]

theorem meaningEq_tuple {es es' : List Shape} {o : Bool} (h : Pointwise meaningEq es es') :
    meaningEq (.tuple es o) (.tuple es' o) := by
  intro d
  cases d <;> simp [admits]
  exact admitsZip_congr h _

/-- two sorted content maps with the same keys and pointwise equivalent values -/
def MembersEquiv (c c' : Members) : Prop :=
  ∀ k, match mapGet k c, mapGet k c' with
    | some v, some v' => meaningEq v v'
    | none, none => True
    | _, _ => False

theorem meaningEq_object {c c' : Members} {o : Bool} (hs : sortedKeys c = true) (hs' : sortedKeys c' = true)
    (h : MembersEquiv c c') : meaningEq (.object c o) (.object c' o) := by
  intro d
  cases d
  case obj ms =>
    rw [admits_object_obj, admits_object_obj]
    apply bool_eq_of_iff
    simp only [Bool.and_eq_true, List.all_eq_true, absentOk_iff_mapGet hs, absentOk_iff_mapGet hs',
      admitsKey_eq_mapGet]
    constructor
    · rintro ⟨h1, h2⟩
      constructor
      · intro kv hkv
        have := h1 kv hkv
        have hk := h kv.1
        cases hg : mapGet kv.1 c with
        | none => simp [hg] at this
        | some v =>
          cases hg' : mapGet kv.1 c' with
          | none => simp [hg, hg'] at hk
          | some v' =>
            simp only [hg, hg'] at hk this ⊢
            rw [← hk kv.2]; exact this
      · intro k s' hs'
        have hk := h k
        cases hg : mapGet k c with
        | none => simp [hg, hs'] at hk
        | some v =>
          simp only [hg, hs'] at hk
          rcases h2 k v hg with h' | h'
          · exact Or.inl h'
          · right; rw [← hk .null]; exact h'
    · rintro ⟨h1, h2⟩
      constructor
      · intro kv hkv
        have := h1 kv hkv
        have hk := h kv.1
        cases hg' : mapGet kv.1 c' with
        | none => simp [hg'] at this
        | some v' =>
          cases hg : mapGet kv.1 c with
          | none => simp [hg, hg'] at hk
          | some v =>
            simp only [hg, hg'] at hk this ⊢
            rw [hk kv.2]; exact this
      · intro k s hs
        have hk := h k
        cases hg' : mapGet k c' with
        | none => simp [hg', hs] at hk
        | some v' =>
          simp only [hg', hs] at hk
          rcases h2 k v' hg' with h' | h'
          · exact Or.inl h'
          · right; rw [hk .null]; exact h'
  all_goals simp [admits]

end ShapeVerif
