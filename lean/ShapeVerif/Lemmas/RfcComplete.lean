/-
`Rfc.parse` (the executable recursive-descent reading of RFC 8259 used by the run-time oracle) is
complete for the specification `JsonTextVia`: every text that can be cut into lexemes deriving a
document in the token grammar is accepted by `Rfc.parse`, with that document (payloads erased, names
unescaped). Together with `parse_sound` the oracle and the specification accept the same texts.
-/
import ShapeVerif.Lemmas.RfcSound
import ShapeVerif.Lemmas.LexLoopComplete
namespace ShapeVerif
open Rfc

/-! ### lexeme readers on a longer input -/

theorem skipWs_allWs : ∀ (w x : List Char), allWs w → skipWs (w ++ x) = skipWs x
  | [], _, _ => rfl
  | c :: w, x, h => by
    have hc : isWs c = true := h c (by simp)
    simp only [List.cons_append, skipWs, hc, if_true]
    exact skipWs_allWs w x (fun y hy => h y (by simp [hy]))

theorem skipWs_head {x : List Char} (h : ∀ c tl, x = c :: tl → isWs c = false) : skipWs x = x := by
  cases x with
  | nil => rfl
  | cons c tl => simp [skipWs, h c tl rfl]

theorem skipWs_nil_of_allWs : ∀ (w : List Char), allWs w → skipWs w = []
  | [], _ => rfl
  | c :: w, h => by
    have hc : isWs c = true := h c (by simp)
    simp only [skipWs, hc, if_true]
    exact skipWs_nil_of_allWs w (fun y hy => h y (by simp [hy]))

theorem sign_of_sg' {sg : List Char} {a : Char} {l : List Char} (hsg : sg = [] ∨ sg = ['+'] ∨ sg = ['-'])
    (ha : isDigitC a = true) : Rfc.sign (sg ++ a :: l) = (sg, a :: l) := by
  have hap : a ≠ '+' := by rintro rfl; simp [isDigitC] at ha
  have ham : a ≠ '-' := by rintro rfl; simp [isDigitC] at ha
  rcases hsg with rfl | rfl | rfl
  · simp only [List.nil_append]
    unfold Rfc.sign
    split
    · rename_i heq; simp only [List.cons.injEq] at heq; exact absurd heq.1 hap
    · rename_i heq; simp only [List.cons.injEq] at heq; exact absurd heq.1 ham
    · rfl
  · rfl
  · rfl

theorem head_append_follow {x rest : List Char} {P : Char → Prop} (hx : ∀ c y, x = c :: y → P c)
    (hr : ∀ c y, rest = c :: y → P c) : ∀ c y, x ++ rest = c :: y → P c := by
  intro c y e
  cases x with
  | nil => exact hr c y (by simpa using e)
  | cons a l => simp only [List.cons_append, List.cons.injEq] at e; rw [← e.1]; exact hx a l rfl

/-- **a number followed by something that cannot extend it is read as that number** -/
theorem number_follow {n rest : List Char} (h : Rfc.number n = some (n, [])) (hf : ValueFollow rest) :
    Rfc.number (n ++ rest) = some (n, rest) := by
  have hnd := follow_not_digit hf
  have hmisc := follow_misc hf
  unfold Rfc.number at h
  cases hi : Rfc.intPart (Rfc.minus n).2 with
  | none => simp [hi] at h
  | some ir =>
    obtain ⟨i, c2⟩ := ir
    simp only [hi] at h
    cases hfr : Rfc.fracPart c2 with
    | none => simp [hfr] at h
    | some fr =>
      obtain ⟨f, c3⟩ := fr
      simp only [hfr] at h
      cases hex : Rfc.expPart c3 with
      | none => simp [hex] at h
      | some er =>
        obtain ⟨e, c4⟩ := er
        simp only [hex, Option.some.injEq, Prod.mk.injEq] at h
        obtain ⟨hn, rfl⟩ := h
        obtain ⟨ia, ib⟩ := intPart_cases hi
        obtain ⟨fa, fb⟩ := fracPart_cases hfr
        obtain ⟨ea, eb⟩ := expPart_cases hex
        simp only [List.append_nil] at ea
        subst ea
        -- c3 = e, c2 = f ++ e, (minus n).2 = i ++ f ++ e
        obtain ⟨ma, mb⟩ := minus_cases n
        -- the integer part is not empty and does not start with '-'
        have hi0 : ∃ c0 r0, i = c0 :: r0 ∧ c0 ≠ '-' := by
          rcases ib with rfl | ⟨c, ds, h19, _, rfl, _⟩
          · exact ⟨'0', [], rfl, by decide⟩
          · exact ⟨c, ds, rfl, by rintro rfl; simp [isDigit19C] at h19⟩
        have hminus : Rfc.minus (n ++ rest) = ((Rfc.minus n).1, (Rfc.minus n).2 ++ rest) := by
          obtain ⟨c0, r0, hi', hc0⟩ := hi0
          have hm2 : (Rfc.minus n).2 = c0 :: (r0 ++ c2) := by rw [← ia, hi']; rfl
          rcases mb with ⟨m1, _⟩ | m1
          · -- no minus
            have hn2 : n = c0 :: (r0 ++ c2) := by rw [← ma, m1, hm2]; rfl
            have hmn : Rfc.minus n = ([], c0 :: (r0 ++ c2)) := by
              rw [Prod.ext_iff]; exact ⟨m1, hm2⟩
            rw [hmn]
            conv => { lhs; rw [hn2] }
            simp only [List.cons_append]
            unfold Rfc.minus
            split
            · rename_i heq; simp only [List.cons.injEq] at heq; exact absurd heq.1 hc0
            · rfl
          · have hn2 : n = '-' :: (Rfc.minus n).2 := by conv => { lhs; rw [← ma, m1] }; rfl
            have hmn : Rfc.minus n = (['-'], (Rfc.minus n).2) := by
              rw [Prod.ext_iff]; exact ⟨m1, rfl⟩
            generalize (Rfc.minus n).2 = tl at hn2 hmn
            rw [hmn, hn2]; rfl
        -- integer part
        have hint : Rfc.intPart ((Rfc.minus n).2 ++ rest) = some (i, c2 ++ rest) := by
          rw [← ia]
          rcases ib with rfl | ⟨c, ds, h19, hall, rfl, hc2⟩
          · rfl
          · have hne0 : c ≠ '0' := by rintro rfl; simp [isDigit19C] at h19
            have h19' : Rfc.isDigit19 c = true := h19
            have hd := digits_of_run ds (c2 ++ rest) hall (head_append_follow (P := fun c => isDigitC c = false) hc2 hnd)
            simp only [List.cons_append, List.append_assoc]
            unfold Rfc.intPart
            split
            · rename_i heq; simp only [List.cons.injEq] at heq; exact absurd heq.1 hne0
            · rename_i c' cs' _ heq
              simp only [List.cons.injEq] at heq
              obtain ⟨rfl, rfl⟩ := heq
              simp [h19', hd]
            · rename_i heq; simp at heq
        -- fraction
        have hfrac : Rfc.fracPart (c2 ++ rest) = some (f, e ++ rest) := by
          rw [← fa]
          rcases fb with ⟨rfl, hnodot⟩ | ⟨ds, hne, hall, rfl, he⟩
          · simp only [List.nil_append] at hnodot ⊢
            have : ∀ tl, e ++ rest ≠ '.' :: tl := by
              intro tl heq
              cases e with
              | nil => exact (hmisc '.' tl (by simpa using heq)).1 rfl
              | cons a l =>
                simp only [List.cons_append, List.cons.injEq] at heq
                exact hnodot l (by rw [← fa, heq.1]; rfl)
            unfold Rfc.fracPart
            split
            · rename_i heq; exact absurd heq (this _)
            · rfl
          · have hd := digits_of_run ds (e ++ rest) hall (head_append_follow (P := fun c => isDigitC c = false) he hnd)
            simp only [List.cons_append, List.append_assoc]
            cases ds with
            | nil => exact absurd rfl hne
            | cons a l =>
              unfold Rfc.fracPart
              simp only [hd]
        -- exponent
        have hexp : Rfc.expPart (e ++ rest) = some (e, rest) := by
          rcases eb with ⟨rfl, _⟩ | ⟨x, sg, ds, hx, hsg, hne, hall, rfl, _⟩
          · simp only [List.nil_append]
            cases rest with
            | nil => rfl
            | cons a l =>
              have := hmisc a l rfl
              have hae : (a == 'e' || a == 'E') = false := by
                simp only [Bool.or_eq_false_iff, beq_eq_false_iff_ne]; exact ⟨this.2.1, this.2.2.1⟩
              simp [Rfc.expPart, hae]
          · have hxe : (x == 'e' || x == 'E') = true := by rcases hx with rfl | rfl <;> decide
            cases ds with
            | nil => exact absurd rfl hne
            | cons a l =>
              have ha : isDigitC a = true := hall a (by simp)
              have hs : Rfc.sign (sg ++ (a :: l ++ rest)) = (sg, a :: l ++ rest) := by
                simpa using sign_of_sg' (l := l ++ rest) hsg ha
              have hd := digits_of_run (a :: l) rest hall hnd
              simp only [List.cons_append, List.append_assoc] at hs hd ⊢
              unfold Rfc.expPart
              simp only [hxe, if_true, hs, hd]
              rfl
        unfold Rfc.number
        simp only [hminus, hint, hfrac, hexp, hn]


/-! ### one step of each reader, forwards -/

theorem skipWs_length_le : ∀ x : List Char, (skipWs x).length ≤ x.length
  | [] => Nat.le_refl _
  | c :: cs => by
    unfold skipWs
    split
    · have := skipWs_length_le cs; simp only [List.length_cons]; omega
    · exact Nat.le_refl _

theorem value_null (fuel : Nat) (r : List Char) : value (fuel + 1) ('n' :: 'u' :: 'l' :: 'l' :: r) = some (.null, r) := by
  unfold value; rfl
theorem value_true (fuel : Nat) (r : List Char) : value (fuel + 1) ('t' :: 'r' :: 'u' :: 'e' :: r) = some (.bool true, r) := by
  unfold value; rfl
theorem value_false (fuel : Nat) (r : List Char) :
    value (fuel + 1) ('f' :: 'a' :: 'l' :: 's' :: 'e' :: r) = some (.bool false, r) := by
  unfold value; rfl

theorem value_str (fuel : Nat) {r s r' : List Char} (h : stringBody r = some (s, r')) :
    value (fuel + 1) ('"' :: r) = some (.str (String.ofList s), r') := by
  unfold value; simp only [h]

theorem value_arrE (fuel : Nat) {r r' : List Char} (h : skipWs r = ']' :: r') :
    value (fuel + 1) ('[' :: r) = some (.arr [], r') := by
  unfold value; simp only [h]

theorem value_objE (fuel : Nat) {r r' : List Char} (h : skipWs r = '}' :: r') :
    value (fuel + 1) ('{' :: r) = some (.obj [], r') := by
  unfold value; simp only [h]

theorem value_arr (fuel : Nat) {r r'' : List Char} {xs : List Doc} (hne : ∀ r', skipWs r ≠ ']' :: r')
    (he : elements fuel (skipWs r) = some (xs, r'')) : value (fuel + 1) ('[' :: r) = some (.arr xs, r'') := by
  unfold value
  simp only
  rw [he]

theorem value_obj (fuel : Nat) {r r'' : List Char} {ms : List (String × Doc)} (hne : ∀ r', skipWs r ≠ '}' :: r')
    (he : members fuel (skipWs r) = some (ms, r'')) : value (fuel + 1) ('{' :: r) = some (.obj ms, r'') := by
  unfold value
  simp only
  rw [he]

theorem value_num (fuel : Nat) {c : Char} {tl n r : List Char} (hc : c = '-' ∨ isDigitC c = true)
    (hn : number (c :: tl) = some (n, r)) : value (fuel + 1) (c :: tl) = some (.num (String.ofList n), r) := by
  have h1 : c ≠ 't' := by rintro rfl; rcases hc with h | h <;> simp [isDigitC] at h
  have h2 : c ≠ 'f' := by rintro rfl; rcases hc with h | h <;> simp [isDigitC] at h
  have h3 : c ≠ 'n' := by rintro rfl; rcases hc with h | h <;> simp [isDigitC] at h
  have h4 : c ≠ '"' := by rintro rfl; rcases hc with h | h <;> simp [isDigitC] at h
  have h5 : c ≠ '[' := by rintro rfl; rcases hc with h | h <;> simp [isDigitC] at h
  have h6 : c ≠ '{' := by rintro rfl; rcases hc with h | h <;> simp [isDigitC] at h
  unfold value
  split
  · rename_i heq; simp only [List.cons.injEq] at heq; exact absurd heq.1 h1
  · rename_i heq; simp only [List.cons.injEq] at heq; exact absurd heq.1 h2
  · rename_i heq; simp only [List.cons.injEq] at heq; exact absurd heq.1 h3
  · rename_i heq; simp only [List.cons.injEq] at heq; exact absurd heq.1 h4
  · rename_i heq; simp only [List.cons.injEq] at heq; exact absurd heq.1 h5
  · rename_i heq; simp only [List.cons.injEq] at heq; exact absurd heq.1 h6
  · simp only [hn]

theorem elements_one (fuel : Nat) {cs r r' : List Char} {x : Doc} (hv : value fuel cs = some (x, r))
    (hs : skipWs r = ']' :: r') : elements (fuel + 1) cs = some ([x], r') := by
  unfold elements; simp only [hv, hs]

theorem elements_more (fuel : Nat) {cs r r' r'' : List Char} {x : Doc} {xs : List Doc} (hv : value fuel cs = some (x, r))
    (hs : skipWs r = ',' :: r') (he : elements fuel (skipWs r') = some (xs, r'')) :
    elements (fuel + 1) cs = some (x :: xs, r'') := by
  unfold elements; simp only [hv, hs, he]

theorem members_one (fuel : Nat) {r k r1 r2 r3 r4 : List Char} {v : Doc} (hs : stringBody r = some (k, r1))
    (hc : skipWs r1 = ':' :: r2) (hv : value fuel (skipWs r2) = some (v, r3)) (he : skipWs r3 = '}' :: r4) :
    members (fuel + 1) ('"' :: r) = some ([(String.ofList k, v)], r4) := by
  unfold members; simp only [hs, hc, hv, he]

theorem members_more (fuel : Nat) {r k r1 r2 r3 r4 r5 : List Char} {v : Doc} {ms : List (String × Doc)}
    (hs : stringBody r = some (k, r1)) (hc : skipWs r1 = ':' :: r2) (hv : value fuel (skipWs r2) = some (v, r3))
    (he : skipWs r3 = ',' :: r4) (hm : members fuel (skipWs r4) = some (ms, r5)) :
    members (fuel + 1) ('"' :: r) = some ((String.ofList k, v) :: ms, r5) := by
  unfold members; simp only [hs, hc, hv, he, hm]

theorem value_zero (cs : List Char) : value 0 cs = none := by unfold value; rfl
theorem elements_zero (cs : List Char) : elements 0 cs = none := by unfold elements; rfl
theorem members_zero (cs : List Char) : members 0 cs = none := by unfold members; rfl


/-! ### walking along a spelling -/

/-- `cs` is the part of `src` that starts at byte `pos` -/
def At (src : List Char) (pos : Nat) (cs : List Char) : Prop := ∃ pre, src = pre ++ cs ∧ utf8Len pre = pos

theorem spell_step {src : List Char} {pos : Nat} {t : Token} {nts : List Token} {cs : List Char}
    (h : Spell pos (t :: nts) cs) (ha : At src pos cs) :
    ∃ txt rest, skipWs cs = txt ++ rest ∧ lexemeOk t.kind txt = true ∧ isGrammarKind t.kind = true ∧
      Spell t.stop nts rest ∧ At src t.stop rest ∧ keyOf src t = memberName txt := by
  cases h with
  | @tok _ w txt rest _ _ hw hs he hk hv hrest =>
    obtain ⟨pre, hsrc, hpre⟩ := ha
    obtain ⟨c, tl, htxt, hcw⟩ := lexeme_head hk hv
    have hstart : t.start = utf8Len (pre ++ w) := by rw [hs]; simp [hpre]
    refine ⟨txt, rest, ?_, hv, hk, hrest, ⟨pre ++ w ++ txt, ?_, ?_⟩, ?_⟩
    · rw [List.append_assoc, skipWs_allWs w _ hw, skipWs_head]
      intro c' tl' e
      rw [htxt] at e
      simp only [List.cons_append, List.cons.injEq] at e
      rw [← e.1]; exact hcw
    · rw [hsrc]; simp
    · rw [he, hstart]; simp; omega
    · unfold keyOf
      have hsrc' : src = (pre ++ w) ++ txt ++ rest := by rw [hsrc]; simp
      rw [he, hstart, hsrc', sliceBytes_of_split]

theorem follow_closer {pos : Nat} {r : List Token} {rest : List Char} (hs : Spell pos r rest) (hc : CloserLed r) :
    ValueFollow rest := by
  intro c tl e
  cases hs with
  | done hw => exact .inl (hw c (by rw [e]; simp))
  | @tok _ w txt rest' t2 nts' hw hs2 he hk hv hrest =>
    cases w with
    | cons a w' =>
      simp only [List.cons_append, List.cons.injEq] at e
      exact .inl (by rw [← e.1]; exact hw a (by simp))
    | nil =>
      have hcl := hc t2 nts' rfl
      simp only [isCloser, Bool.or_eq_true, beq_iff_eq] at hcl
      rcases hcl with (hk' | hk') | hk' <;> rw [hk'] at hv
      · have : txt = [','] := by simpa [lexemeOk] using hv
        subst this; simp only [List.cons_append, List.nil_append, List.cons.injEq] at e
        exact .inr (.inl e.1.symm)
      · have : txt = [']'] := by simpa [lexemeOk] using hv
        subst this; simp only [List.cons_append, List.nil_append, List.cons.injEq] at e
        exact .inr (.inr (.inl e.1.symm))
      · have : txt = ['}'] := by simpa [lexemeOk] using hv
        subst this; simp only [List.cons_append, List.nil_append, List.cons.injEq] at e
        exact .inr (.inr (.inr e.1.symm))

theorem value_close_none (fuel : Nat) (r : List Char) : value fuel (']' :: r) = none ∧ value fuel ('}' :: r) = none := by
  cases fuel with
  | zero => exact ⟨value_zero _, value_zero _⟩
  | succ f =>
    constructor
    · cases h : value (f + 1) (']' :: r) with
      | none => rfl
      | some p =>
        obtain ⟨d, rest⟩ := p
        rcases value_inv h with ⟨e, _⟩ | ⟨e, _⟩ | ⟨e, _⟩ | ⟨_, _, e, _⟩ | ⟨_, e, _⟩ | ⟨_, _, e, _⟩ | ⟨_, e, _⟩ | ⟨_, _, e, _⟩ | ⟨n, hn, _⟩
        all_goals first | (simp at e; done) | skip
        simp [number, minus, intPart, isDigit19] at hn
    · cases h : value (f + 1) ('}' :: r) with
      | none => rfl
      | some p =>
        obtain ⟨d, rest⟩ := p
        rcases value_inv h with ⟨e, _⟩ | ⟨e, _⟩ | ⟨e, _⟩ | ⟨_, _, e, _⟩ | ⟨_, e, _⟩ | ⟨_, _, e, _⟩ | ⟨_, e, _⟩ | ⟨_, _, e, _⟩ | ⟨n, hn, _⟩
        all_goals first | (simp at e; done) | skip
        simp [number, minus, intPart, isDigit19] at hn

theorem elements_close_none (fuel : Nat) (r : List Char) : elements fuel (']' :: r) = none := by
  cases fuel with
  | zero => exact elements_zero _
  | succ f => unfold elements; simp only [(value_close_none f r).1]

theorem members_close_none (fuel : Nat) (r : List Char) : members fuel ('}' :: r) = none := by
  cases fuel with
  | zero => exact members_zero _
  | succ f => unfold members; rfl


theorem string_lexeme {txt : List Char} (hv : lexemeOk .string txt = true) :
    ∃ r0 s, txt = '"' :: r0 ∧ stringBody r0 = some (s, []) := by
  simp only [lexemeOk] at hv
  split at hv
  · rename_i r0
    cases hsb : stringBody r0 with
    | none => simp [hsb] at hv
    | some p =>
      obtain ⟨s, r'⟩ := p
      cases r' with
      | nil => exact ⟨r0, s, rfl, hsb⟩
      | cons a l => simp [hsb] at hv
  · cases hv

theorem closerLed_cons {t : Token} (r : List Token) (h : isCloser t.kind = true) : CloserLed (t :: r) := by
  intro b tl e
  simp only [List.cons.injEq] at e
  rw [← e.1]; exact h

/-! ### the three readers follow a derivation -/

variable {src : List Char}

mutual
theorem value_complete : ∀ {ph : List Token} {d : Doc}, TValue (keyOf src) ph d →
    ∀ (r : List Token) (pos : Nat) (cs : List Char), Spell pos (ph ++ r) cs → At src pos cs → CloserLed r →
    ∃ d' cs' p' n, (∀ fuel, n ≤ fuel → value fuel (skipWs cs) = some (d', cs')) ∧ specDoc d' = d ∧
      Spell p' r cs' ∧ At src p' cs' ∧ n + cs'.length ≤ (skipWs cs).length ∧ 1 ≤ n
  | _, _, @TValue.null _ t hk, r, pos, cs, hs, ha, hc => by
    have hs' : Spell pos (t :: r) cs := hs
    obtain ⟨txt, rest, hsk, hv, _, hrest, harest, _⟩ := spell_step hs' ha
    rw [hk] at hv
    have : txt = ['n', 'u', 'l', 'l'] := by simpa [lexemeOk] using hv
    subst this
    refine ⟨.null, rest, _, 1, ?_, rfl, hrest, harest, ?_, Nat.le_refl _⟩
    · intro fuel hf
      obtain ⟨f, rfl⟩ : ∃ f, fuel = f + 1 := ⟨fuel - 1, by omega⟩
      rw [hsk]; exact value_null f rest
    · rw [hsk]; simp; omega
  | _, _, @TValue.tru _ t hk, r, pos, cs, hs, ha, hc => by
    have hs' : Spell pos (t :: r) cs := hs
    obtain ⟨txt, rest, hsk, hv, _, hrest, harest, _⟩ := spell_step hs' ha
    rw [hk] at hv
    have : txt = ['t', 'r', 'u', 'e'] := by simpa [lexemeOk] using hv
    subst this
    refine ⟨.bool true, rest, _, 1, ?_, rfl, hrest, harest, ?_, Nat.le_refl _⟩
    · intro fuel hf
      obtain ⟨f, rfl⟩ : ∃ f, fuel = f + 1 := ⟨fuel - 1, by omega⟩
      rw [hsk]; exact value_true f rest
    · rw [hsk]; simp; omega
  | _, _, @TValue.fls _ t hk, r, pos, cs, hs, ha, hc => by
    have hs' : Spell pos (t :: r) cs := hs
    obtain ⟨txt, rest, hsk, hv, _, hrest, harest, _⟩ := spell_step hs' ha
    rw [hk] at hv
    have : txt = ['f', 'a', 'l', 's', 'e'] := by simpa [lexemeOk] using hv
    subst this
    refine ⟨.bool false, rest, _, 1, ?_, rfl, hrest, harest, ?_, Nat.le_refl _⟩
    · intro fuel hf
      obtain ⟨f, rfl⟩ : ∃ f, fuel = f + 1 := ⟨fuel - 1, by omega⟩
      rw [hsk]; exact value_false f rest
    · rw [hsk]; simp; omega
  | _, _, @TValue.num _ t hk, r, pos, cs, hs, ha, hc => by
    have hs' : Spell pos (t :: r) cs := hs
    obtain ⟨txt, rest, hsk, hv, _, hrest, harest, _⟩ := spell_step hs' ha
    rw [hk] at hv
    have hnum : Rfc.number txt = some (txt, []) := by simpa [lexemeOk] using hv
    obtain ⟨c, tl, htxt, hc0⟩ := number_head hnum
    have hn := number_follow hnum (follow_closer hrest hc)
    subst htxt
    refine ⟨.num (String.ofList (c :: tl)), rest, _, 1, ?_, rfl, hrest, harest, ?_, Nat.le_refl _⟩
    · intro fuel hf
      obtain ⟨f, rfl⟩ : ∃ f, fuel = f + 1 := ⟨fuel - 1, by omega⟩
      rw [hsk]
      exact value_num (tl := tl ++ rest) f hc0 hn
    · rw [hsk]; simp; omega
  | _, _, @TValue.str _ t hk, r, pos, cs, hs, ha, hc => by
    have hs' : Spell pos (t :: r) cs := hs
    obtain ⟨txt, rest, hsk, hv, _, hrest, harest, _⟩ := spell_step hs' ha
    rw [hk] at hv
    obtain ⟨r0, s, rfl, hsb⟩ := string_lexeme hv
    obtain ⟨e1, e2⟩ := stringBody_split r0.length r0 s [] (Nat.le_refl _) hsb
    refine ⟨.str (String.ofList s), rest, _, 1, ?_, rfl, hrest, harest, ?_, Nat.le_refl _⟩
    · intro fuel hf
      obtain ⟨f, rfl⟩ : ∃ f, fuel = f + 1 := ⟨fuel - 1, by omega⟩
      rw [hsk, e1]
      have : ('"' :: (s ++ ['"'])) ++ rest = '"' :: (s ++ '"' :: rest) := by simp
      rw [this]; exact value_str f (e2 rest)
    · rw [hsk]; simp; omega
  | _, _, @TValue.arrE _ l rt hl hr, r, pos, cs, hs, ha, hc => by
    have hs' : Spell pos (l :: rt :: r) cs := hs
    obtain ⟨txt, rest1, hsk, hv, _, hrest1, ha1, _⟩ := spell_step hs' ha
    rw [hl] at hv
    have : txt = ['['] := by simpa [lexemeOk] using hv
    subst this
    obtain ⟨txt2, rest2, hsk2, hv2, _, hrest2, ha2, _⟩ := spell_step hrest1 ha1
    rw [hr] at hv2
    have : txt2 = [']'] := by simpa [lexemeOk] using hv2
    subst this
    refine ⟨.arr [], rest2, _, 1, ?_, rfl, hrest2, ha2, ?_, Nat.le_refl _⟩
    · intro fuel hf
      obtain ⟨f, rfl⟩ : ∃ f, fuel = f + 1 := ⟨fuel - 1, by omega⟩
      rw [hsk]; exact value_arrE f hsk2
    · have := skipWs_length_le rest1
      rw [hsk2] at this; rw [hsk]; simp at this ⊢; omega
  | _, _, @TValue.arr _ l rt ts xs hl hr he, r, pos, cs, hs, ha, hc => by
    have hs' : Spell pos (l :: (ts ++ rt :: r)) cs := by simpa using hs
    obtain ⟨txt, rest1, hsk, hv, _, hrest1, ha1, _⟩ := spell_step hs' ha
    rw [hl] at hv
    have : txt = ['['] := by simpa [lexemeOk] using hv
    subst this
    obtain ⟨xs', cs', p', n, hfuel, hspec, hsp, hat, hlen, hn1⟩ := elems_complete he rt r l.stop rest1 hr hrest1 ha1
    have hne : ∀ r', skipWs rest1 ≠ ']' :: r' := by
      intro r' e
      have := hfuel n (Nat.le_refl _)
      rw [e, elements_close_none] at this; cases this
    refine ⟨.arr xs', cs', p', n + 1, ?_, ?_, hsp, hat, ?_, by omega⟩
    · intro fuel hf
      obtain ⟨f, rfl⟩ : ∃ f, fuel = f + 1 := ⟨fuel - 1, by omega⟩
      rw [hsk]; exact value_arr f hne (hfuel f (by omega))
    · simp only [specDoc, hspec]
    · have := skipWs_length_le rest1
      rw [hsk]; simp; omega
  | _, _, @TValue.objE _ l rt hl hr, r, pos, cs, hs, ha, hc => by
    have hs' : Spell pos (l :: rt :: r) cs := hs
    obtain ⟨txt, rest1, hsk, hv, _, hrest1, ha1, _⟩ := spell_step hs' ha
    rw [hl] at hv
    have : txt = ['{'] := by simpa [lexemeOk] using hv
    subst this
    obtain ⟨txt2, rest2, hsk2, hv2, _, hrest2, ha2, _⟩ := spell_step hrest1 ha1
    rw [hr] at hv2
    have : txt2 = ['}'] := by simpa [lexemeOk] using hv2
    subst this
    refine ⟨.obj [], rest2, _, 1, ?_, rfl, hrest2, ha2, ?_, Nat.le_refl _⟩
    · intro fuel hf
      obtain ⟨f, rfl⟩ : ∃ f, fuel = f + 1 := ⟨fuel - 1, by omega⟩
      rw [hsk]; exact value_objE f hsk2
    · have := skipWs_length_le rest1
      rw [hsk2] at this; rw [hsk]; simp at this ⊢; omega
  | _, _, @TValue.obj _ l rt ts ms hl hr hm, r, pos, cs, hs, ha, hc => by
    have hs' : Spell pos (l :: (ts ++ rt :: r)) cs := by simpa using hs
    obtain ⟨txt, rest1, hsk, hv, _, hrest1, ha1, _⟩ := spell_step hs' ha
    rw [hl] at hv
    have : txt = ['{'] := by simpa [lexemeOk] using hv
    subst this
    obtain ⟨ms', cs', p', n, hfuel, hspec, hsp, hat, hlen, hn1⟩ := members_complete hm rt r l.stop rest1 hr hrest1 ha1
    have hne : ∀ r', skipWs rest1 ≠ '}' :: r' := by
      intro r' e
      have := hfuel n (Nat.le_refl _)
      rw [e, members_close_none] at this; cases this
    refine ⟨.obj ms', cs', p', n + 1, ?_, ?_, hsp, hat, ?_, by omega⟩
    · intro fuel hf
      obtain ⟨f, rfl⟩ : ∃ f, fuel = f + 1 := ⟨fuel - 1, by omega⟩
      rw [hsk]; exact value_obj f hne (hfuel f (by omega))
    · simp only [specDoc, hspec]
    · have := skipWs_length_le rest1
      rw [hsk]; simp; omega
theorem elems_complete : ∀ {ts : List Token} {xs : List Doc}, TElems (keyOf src) ts xs →
    ∀ (rt : Token) (r : List Token) (pos : Nat) (cs : List Char), rt.kind = .rbrak →
    Spell pos (ts ++ rt :: r) cs → At src pos cs →
    ∃ xs' cs' p' n, (∀ fuel, n ≤ fuel → elements fuel (skipWs cs) = some (xs', cs')) ∧ specDocs xs' = xs ∧
      Spell p' r cs' ∧ At src p' cs' ∧ n + cs'.length ≤ (skipWs cs).length ∧ 1 ≤ n
  | _, _, @TElems.one _ ts x hv, rt, r, pos, cs, hrt, hs, ha => by
    obtain ⟨d', cs1, p1, nv, hfuel, hspec, hsp1, hat1, hlen1, hnv⟩ :=
      value_complete hv (rt :: r) pos cs hs ha (closerLed_cons r (by rw [hrt]; rfl))
    obtain ⟨txt2, rest2, hsk2, hv2, _, hrest2, ha2, _⟩ := spell_step hsp1 hat1
    rw [hrt] at hv2
    have : txt2 = [']'] := by simpa [lexemeOk] using hv2
    subst this
    refine ⟨[d'], rest2, _, nv + 1, ?_, ?_, hrest2, ha2, ?_, by omega⟩
    · intro fuel hf
      obtain ⟨f, rfl⟩ : ∃ f, fuel = f + 1 := ⟨fuel - 1, by omega⟩
      exact elements_one f (hfuel f (by omega)) hsk2
    · simp only [specDocs, hspec]
    · have := skipWs_length_le cs1
      rw [hsk2] at this; simp at this; omega
  | _, _, @TElems.cons _ c ts rest x xs hc hv hrest, rt, r, pos, cs, hrt, hs, ha => by
    have hs' : Spell pos (ts ++ c :: (rest ++ rt :: r)) cs := by simpa using hs
    obtain ⟨d', cs1, p1, nv, hfuel, hspec, hsp1, hat1, hlen1, hnv⟩ :=
      value_complete hv (c :: (rest ++ rt :: r)) pos cs hs' ha (closerLed_cons _ (by rw [hc]; rfl))
    obtain ⟨txt2, rest2, hsk2, hv2, _, hrest2, ha2, _⟩ := spell_step hsp1 hat1
    rw [hc] at hv2
    have : txt2 = [','] := by simpa [lexemeOk] using hv2
    subst this
    obtain ⟨xs', cs', p', ne, hfuelE, hspecE, hsp, hat, hlenE, hne⟩ := elems_complete hrest rt r c.stop rest2 hrt hrest2 ha2
    refine ⟨d' :: xs', cs', p', nv + ne + 1, ?_, ?_, hsp, hat, ?_, by omega⟩
    · intro fuel hf
      obtain ⟨f, rfl⟩ : ∃ f, fuel = f + 1 := ⟨fuel - 1, by omega⟩
      exact elements_more f (hfuel f (by omega)) hsk2 (hfuelE f (by omega))
    · simp only [specDocs, hspec, hspecE]
    · have h1 := skipWs_length_le cs1
      have h2 := skipWs_length_le rest2
      rw [hsk2] at h1; simp at h1; omega
theorem members_complete : ∀ {ts : List Token} {ms : List (String × Doc)}, TMembers (keyOf src) ts ms →
    ∀ (rt : Token) (r : List Token) (pos : Nat) (cs : List Char), rt.kind = .rbrace →
    Spell pos (ts ++ rt :: r) cs → At src pos cs →
    ∃ ms' cs' p' n, (∀ fuel, n ≤ fuel → members fuel (skipWs cs) = some (ms', cs')) ∧ specMembers ms' = ms ∧
      Spell p' r cs' ∧ At src p' cs' ∧ n + cs'.length ≤ (skipWs cs).length ∧ 1 ≤ n
  | _, _, @TMembers.one _ k c ts v hk hc hv, rt, r, pos, cs, hrt, hs, ha => by
    have hs' : Spell pos (k :: c :: (ts ++ rt :: r)) cs := by simpa using hs
    obtain ⟨txtk, rest1, hsk1, hv1, _, hrest1, ha1, hkey⟩ := spell_step hs' ha
    rw [hk] at hv1
    obtain ⟨r0, s, rfl, hsb⟩ := string_lexeme hv1
    obtain ⟨e1, e2⟩ := stringBody_split r0.length r0 s [] (Nat.le_refl _) hsb
    obtain ⟨txtc, rest2, hsk2, hv2, _, hrest2, ha2, _⟩ := spell_step hrest1 ha1
    rw [hc] at hv2
    have : txtc = [':'] := by simpa [lexemeOk] using hv2
    subst this
    obtain ⟨v', cs3, p3, nv, hfuel, hspec, hsp3, hat3, hlen3, hnv⟩ :=
      value_complete hv (rt :: r) c.stop rest2 hrest2 ha2 (closerLed_cons r (by rw [hrt]; rfl))
    obtain ⟨txt4, rest4, hsk4, hv4, _, hrest4, ha4, _⟩ := spell_step hsp3 hat3
    rw [hrt] at hv4
    have : txt4 = ['}'] := by simpa [lexemeOk] using hv4
    subst this
    refine ⟨[(String.ofList s, v')], rest4, _, nv + 1, ?_, ?_, hrest4, ha4, ?_, by omega⟩
    · intro fuel hf
      obtain ⟨f, rfl⟩ : ∃ f, fuel = f + 1 := ⟨fuel - 1, by omega⟩
      rw [hsk1, e1]
      have : ('"' :: (s ++ ['"'])) ++ rest1 = '"' :: (s ++ '"' :: rest1) := by simp
      rw [this]; exact members_one f (e2 rest1) hsk2 (hfuel f (by omega)) hsk4
    · simp only [specMembers, hspec, hkey, e1]
      simp
    · have h1 := skipWs_length_le rest1
      have h2 := skipWs_length_le rest2
      have h3 := skipWs_length_le cs3
      rw [hsk2] at h1; rw [hsk4] at h3; rw [hsk1]; simp at h1 h3 ⊢; omega
  | _, _, @TMembers.cons _ k c m ts rest v ms hk hc hm hv hrest, rt, r, pos, cs, hrt, hs, ha => by
    have hs' : Spell pos (k :: c :: (ts ++ m :: (rest ++ rt :: r))) cs := by simpa using hs
    obtain ⟨txtk, rest1, hsk1, hv1, _, hrest1, ha1, hkey⟩ := spell_step hs' ha
    rw [hk] at hv1
    obtain ⟨r0, s, rfl, hsb⟩ := string_lexeme hv1
    obtain ⟨e1, e2⟩ := stringBody_split r0.length r0 s [] (Nat.le_refl _) hsb
    obtain ⟨txtc, rest2, hsk2, hv2, _, hrest2, ha2, _⟩ := spell_step hrest1 ha1
    rw [hc] at hv2
    have : txtc = [':'] := by simpa [lexemeOk] using hv2
    subst this
    obtain ⟨v', cs3, p3, nv, hfuel, hspec, hsp3, hat3, hlen3, hnv⟩ :=
      value_complete hv (m :: (rest ++ rt :: r)) c.stop rest2 hrest2 ha2 (closerLed_cons _ (by rw [hm]; rfl))
    obtain ⟨txt4, rest4, hsk4, hv4, _, hrest4, ha4, _⟩ := spell_step hsp3 hat3
    rw [hm] at hv4
    have : txt4 = [','] := by simpa [lexemeOk] using hv4
    subst this
    obtain ⟨ms', cs', p', nm, hfuelM, hspecM, hsp, hat, hlenM, hnm⟩ :=
      members_complete hrest rt r m.stop rest4 hrt hrest4 ha4
    refine ⟨(String.ofList s, v') :: ms', cs', p', nv + nm + 1, ?_, ?_, hsp, hat, ?_, by omega⟩
    · intro fuel hf
      obtain ⟨f, rfl⟩ : ∃ f, fuel = f + 1 := ⟨fuel - 1, by omega⟩
      rw [hsk1, e1]
      have : ('"' :: (s ++ ['"'])) ++ rest1 = '"' :: (s ++ '"' :: rest1) := by simp
      rw [this]; exact members_more f (e2 rest1) hsk2 (hfuel f (by omega)) hsk4 (hfuelM f (by omega))
    · simp only [specMembers, hspec, hspecM, hkey, e1]
      simp
    · have h1 := skipWs_length_le rest1
      have h2 := skipWs_length_le rest2
      have h3 := skipWs_length_le cs3
      have h4 := skipWs_length_le rest4
      rw [hsk2] at h1; rw [hsk4] at h3; rw [hsk1]; simp at h1 h3 ⊢; omega
end


/-- **the oracle is complete for the specification**: a JSON text in the sense of `JsonTextVia` is accepted
by `Rfc.parse`, with the document of the derivation (payloads erased, names unescaped) -/
theorem parse_complete (cs : List Char) (d : Doc) (h : JsonText cs d) : ∃ d', Rfc.parse cs = some d' ∧ specDoc d' = d := by
  obtain ⟨toks, htiles, hval⟩ := h
  have hsp : Spell 0 (sig toks) cs := spell_of_tiles toks 0 cs htiles
  have hat : At cs 0 cs := ⟨[], rfl, rfl⟩
  obtain ⟨d', cs', p', n, hfuel, hspec, hrest, _, hlen, _⟩ :=
    value_complete (src := cs) hval [] 0 cs (by simpa [sig] using hsp) hat (by intro b tl e; cases e)
  have hws : allWs cs' := by
    cases hrest with
    | done hw => exact hw
  have hn : n ≤ cs.length + 1 := by have := skipWs_length_le cs; omega
  refine ⟨d', ?_, hspec⟩
  unfold Rfc.parse
  rw [hfuel _ hn]
  simp [skipWs_nil_of_allWs cs' hws]

/-- the executable reference parser and the declarative specification accept the same texts -/
theorem parse_iff_jsonText (cs : List Char) : (∃ d', Rfc.parse cs = some d') ↔ ∃ d, JsonText cs d :=
  ⟨fun ⟨d', h⟩ => ⟨specDoc d', parse_sound cs d' h⟩, fun ⟨d, h⟩ => (parse_complete cs d h).imp fun _ hh => hh.1⟩

end ShapeVerif
