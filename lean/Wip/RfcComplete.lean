/-
`Rfc.parse` (the executable recursive-descent reading of RFC 8259 used by the run-time oracle) is
complete for the specification `JsonTextVia`: every text that can be cut into lexemes deriving a
document in the token grammar is accepted by `Rfc.parse`, with that document (payloads erased, names
unescaped). Together with `parse_sound` the oracle and the specification accept the same texts.
-/
import ShapeVerif.Lemmas.RfcSound
import ShapeVerif.Lemmas.LexLoopComplete
namespace ShapeVerif
open Rfc

/-! ### lexeme readers on a longer input -/

theorem skipWs_allWs : ∀ (w x : List Char), allWs w → skipWs (w ++ x) = skipWs x
  | [], _, _ => rfl
  | c :: w, x, h => by
    have hc : isWs c = true := h c (by simp)
    simp only [List.cons_append, skipWs, hc, if_true]
    exact skipWs_allWs w x (fun y hy => h y (by simp [hy]))

theorem skipWs_head {x : List Char} (h : ∀ c tl, x = c :: tl → isWs c = false) : skipWs x = x := by
  cases x with
  | nil => rfl
  | cons c tl => simp [skipWs, h c tl rfl]

theorem skipWs_nil_of_allWs : ∀ (w : List Char), allWs w → skipWs w = []
  | [], _ => rfl
  | c :: w, h => by
    have hc : isWs c = true := h c (by simp)
    simp only [skipWs, hc, if_true]
    exact skipWs_nil_of_allWs w (fun y hy => h y (by simp [hy]))

theorem sign_of_sg' {sg : List Char} {a : Char} {l : List Char} (hsg : sg = [] ∨ sg = ['+'] ∨ sg = ['-'])
    (ha : isDigitC a = true) : Rfc.sign (sg ++ a :: l) = (sg, a :: l) := by
  have hap : a ≠ '+' := by rintro rfl; simp [isDigitC] at ha
  have ham : a ≠ '-' := by rintro rfl; simp [isDigitC] at ha
  rcases hsg with rfl | rfl | rfl
  · simp only [List.nil_append]
    unfold Rfc.sign
    split
    · rename_i heq; simp only [List.cons.injEq] at heq; exact absurd heq.1 hap
    · rename_i heq; simp only [List.cons.injEq] at heq; exact absurd heq.1 ham
    · rfl
  · rfl
  · rfl

theorem head_append_follow {x rest : List Char} {P : Char → Prop} (hx : ∀ c y, x = c :: y → P c)
    (hr : ∀ c y, rest = c :: y → P c) : ∀ c y, x ++ rest = c :: y → P c := by
  intro c y e
  cases x with
  | nil => exact hr c y (by simpa using e)
  | cons a l => simp only [List.cons_append, List.cons.injEq] at e; exact hx a l (by rw [e.1])

/-- **a number followed by something that cannot extend it is read as that number** -/
theorem number_follow {n rest : List Char} (h : Rfc.number n = some (n, [])) (hf : ValueFollow rest) :
    Rfc.number (n ++ rest) = some (n, rest) := by
  have hnd := follow_not_digit hf
  have hmisc := follow_misc hf
  unfold Rfc.number at h
  cases hi : Rfc.intPart (Rfc.minus n).2 with
  | none => simp [hi] at h
  | some ir =>
    obtain ⟨i, c2⟩ := ir
    simp only [hi] at h
    cases hfr : Rfc.fracPart c2 with
    | none => simp [hfr] at h
    | some fr =>
      obtain ⟨f, c3⟩ := fr
      simp only [hfr] at h
      cases hex : Rfc.expPart c3 with
      | none => simp [hex] at h
      | some er =>
        obtain ⟨e, c4⟩ := er
        simp only [hex, Option.some.injEq, Prod.mk.injEq] at h
        obtain ⟨hn, rfl⟩ := h
        obtain ⟨ia, ib⟩ := intPart_cases hi
        obtain ⟨fa, fb⟩ := fracPart_cases hfr
        obtain ⟨ea, eb⟩ := expPart_cases hex
        simp only [List.append_nil] at ea
        subst ea
        -- c3 = e, c2 = f ++ e, (minus n).2 = i ++ f ++ e
        obtain ⟨ma, mb⟩ := minus_cases n
        -- the integer part is not empty and does not start with '-'
        have hi0 : ∃ c0 r0, i = c0 :: r0 ∧ c0 ≠ '-' := by
          rcases ib with rfl | ⟨c, ds, h19, _, rfl, _⟩
          · exact ⟨'0', [], rfl, by decide⟩
          · exact ⟨c, ds, rfl, by rintro rfl; simp [isDigit19C] at h19⟩
        have hminus : Rfc.minus (n ++ rest) = ((Rfc.minus n).1, (Rfc.minus n).2 ++ rest) := by
          rcases mb with ⟨m1, m2⟩ | ⟨tl, m0, m1, m2⟩
          · -- no minus
            rw [m1, m2]
            obtain ⟨c0, r0, hi', hc0⟩ := hi0
            have hn2 : n = c0 :: (r0 ++ c2) := by rw [← ia, hi'] at m2; simpa using m2.symm
            rw [hn2]
            simp only [List.cons_append]
            unfold Rfc.minus
            split
            · rename_i heq; simp only [List.cons.injEq] at heq; exact absurd heq.1 hc0
            · rfl
          · rw [m1, m2, m0]; rfl
        -- integer part
        have hint : Rfc.intPart ((Rfc.minus n).2 ++ rest) = some (i, c2 ++ rest) := by
          rw [← ia]
          rcases ib with rfl | ⟨c, ds, h19, hall, rfl, hc2⟩
          · rfl
          · have hne0 : c ≠ '0' := by rintro rfl; simp [isDigit19C] at h19
            have h19' : Rfc.isDigit19 c = true := h19
            have hd := digits_of_run ds (c2 ++ rest) hall (head_append_follow (P := fun c => isDigitC c = false) hc2 hnd)
            simp only [List.cons_append, List.append_assoc]
            unfold Rfc.intPart
            split
            · rename_i heq; simp only [List.cons.injEq] at heq; exact absurd heq.1 hne0
            · rename_i c' cs' _ heq
              simp only [List.cons.injEq] at heq
              obtain ⟨rfl, rfl⟩ := heq
              simp [h19', hd]
            · rename_i heq; simp at heq
        -- fraction
        have hfrac : Rfc.fracPart (c2 ++ rest) = some (f, e ++ rest) := by
          rw [← fa]
          rcases fb with ⟨rfl, hnodot⟩ | ⟨ds, hne, hall, rfl, he⟩
          · simp only [List.nil_append] at hnodot ⊢
            have : ∀ tl, e ++ rest ≠ '.' :: tl := by
              intro tl heq
              cases e with
              | nil => exact (hmisc '.' tl (by simpa using heq)).1 rfl
              | cons a l => simp only [List.cons_append, List.cons.injEq] at heq; exact hnodot l (by rw [heq.1])
            unfold Rfc.fracPart
            split
            · rename_i heq; exact absurd heq (this _)
            · rfl
          · have hd := digits_of_run ds (e ++ rest) hall (head_append_follow (P := fun c => isDigitC c = false) he hnd)
            simp only [List.cons_append, List.append_assoc]
            cases ds with
            | nil => exact absurd rfl hne
            | cons a l =>
              unfold Rfc.fracPart
              simp only [hd]
        -- exponent
        have hexp : Rfc.expPart (e ++ rest) = some (e, rest) := by
          rcases eb with ⟨rfl, _⟩ | ⟨x, sg, ds, hx, hsg, hne, hall, rfl, _⟩
          · simp only [List.nil_append]
            cases rest with
            | nil => rfl
            | cons a l =>
              have := hmisc a l rfl
              have hae : (a == 'e' || a == 'E') = false := by
                simp only [Bool.or_eq_false_iff, beq_eq_false_iff_ne]; exact ⟨this.2.1, this.2.2.1⟩
              simp [Rfc.expPart, hae]
          · have hxe : (x == 'e' || x == 'E') = true := by rcases hx with rfl | rfl <;> decide
            cases ds with
            | nil => exact absurd rfl hne
            | cons a l =>
              have ha : isDigitC a = true := hall a (by simp)
              have hs : Rfc.sign (sg ++ (a :: l ++ rest)) = (sg, a :: l ++ rest) := by
                simpa using sign_of_sg' (l := l ++ rest) hsg ha
              have hd := digits_of_run (a :: l) rest hall hnd
              simp only [List.cons_append, List.append_assoc] at hs hd ⊢
              unfold Rfc.expPart
              simp only [hxe, if_true, hs, hd]
        unfold Rfc.number
        simp only [hminus, hint, hfrac, hexp, hn]

end ShapeVerif
