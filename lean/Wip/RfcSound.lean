/-
`Rfc.parse` (the executable recursive-descent reading of RFC 8259 that the run-time oracle uses) is
sound for the specification `JsonTextVia` that `accept_iff` is stated against: whenever it returns a
document, the text can be cut into lexemes whose non-whitespace part derives that document in the
token grammar (scalar payloads erased, member names unescaped — `specDoc`).
-/
import ShapeVerif.Lemmas.RfcLexemes
import ShapeVerif.Lemmas.Slice
namespace ShapeVerif
open Rfc

mutual
/-- what the specification keeps of a document: no scalar payloads, member names as the text path
reads them (`memberName` of the quoted source text) -/
def specDoc : Doc → Doc
  | .null => .null
  | .bool _ => .bool false
  | .num _ => .num ""
  | .str _ => .str ""
  | .arr xs => .arr (specDocs xs)
  | .obj ms => .obj (specMembers ms)
def specDocs : List Doc → List Doc
  | [] => []
  | x :: xs => specDoc x :: specDocs xs
def specMembers : List (String × Doc) → List (String × Doc)
  | [] => []
  | (k, v) :: ms => (memberName ('"' :: k.toList ++ ['"']), specDoc v) :: specMembers ms
end

/-! ### tiling -/

theorem tiles_append : ∀ (a b : List Token) (t1 t2 : List Char) (pos : Nat),
    TilesFrom pos a t1 → TilesFrom (pos + utf8Len t1) b t2 → TilesFrom pos (a ++ b) (t1 ++ t2)
  | [], b, t1, t2, pos, h1, h2 => by
    simp only [TilesFrom] at h1; subst h1
    simpa using h2
  | t :: a, b, t1, t2, pos, h1, h2 => by
    obtain ⟨txt, rest, e, hs, he, hl, hr⟩ := h1
    subst e
    refine ⟨txt, rest ++ t2, by simp, hs, he, hl, ?_⟩
    have : t.stop + utf8Len rest = pos + utf8Len (txt ++ rest) := by rw [he]; simp; omega
    exact tiles_append a b rest t2 t.stop hr (by rw [this]; exact h2)

theorem tiles_single (pos : Nat) (k : Tok) (txt : List Char) (h : lexemeOk k txt = true) :
    TilesFrom pos [⟨k, pos, pos + utf8Len txt⟩] txt :=
  ⟨txt, [], by simp, rfl, rfl, h, rfl⟩

/-- a run of whitespace as zero or one `Whitespace` lexeme -/
def wsToks (pos : Nat) (w : List Char) : List Token := if w.isEmpty then [] else [⟨.ws, pos, pos + utf8Len w⟩]

theorem wsToks_tiles (pos : Nat) (w : List Char) (h : (w.all isWs) = true) : TilesFrom pos (wsToks pos w) w := by
  unfold wsToks
  cases w with
  | nil => simp [TilesFrom]
  | cons c cs =>
    simp only [List.isEmpty_cons, Bool.false_eq_true, if_false]
    exact tiles_single pos .ws (c :: cs) (by simpa [lexemeOk] using h)

theorem wsToks_filter (pos : Nat) (w : List Char) : (wsToks pos w).filter (fun t => !isSkipTok t.kind) = [] := by
  unfold wsToks; split <;> simp [isSkipTok]

theorem keyOf_tile (pre txt post : List Char) :
    keyOf (pre ++ txt ++ post) ⟨.string, utf8Len pre, utf8Len pre + utf8Len txt⟩ = memberName txt := by
  unfold keyOf
  simp only []
  rw [sliceBytes_of_split]

/-- the filtered token list of a segment: tiling, what it spells, and its non-whitespace tokens -/
structure Seg (src pre txt : List Char) (toks flt : List Token) : Prop where
  tiles : TilesFrom (utf8Len pre) toks txt
  filt : toks.filter (fun t => !isSkipTok t.kind) = flt

theorem Seg.append {src pre t1 t2 : List Char} {a b fa fb : List Token} (h1 : Seg src pre t1 a fa)
    (h2 : Seg src (pre ++ t1) t2 b fb) : Seg src pre (t1 ++ t2) (a ++ b) (fa ++ fb) :=
  ⟨tiles_append a b t1 t2 _ h1.tiles (by simpa using h2.tiles), by rw [List.filter_append, h1.filt, h2.filt]⟩

theorem Seg.ws (src pre w : List Char) (h : (w.all isWs) = true) : Seg src pre w (wsToks (utf8Len pre) w) [] :=
  ⟨wsToks_tiles _ w h, wsToks_filter _ w⟩

theorem Seg.tok (src pre txt : List Char) (k : Tok) (h : lexemeOk k txt = true) (hk : isSkipTok k = false) :
    Seg src pre txt [⟨k, utf8Len pre, utf8Len pre + utf8Len txt⟩] [⟨k, utf8Len pre, utf8Len pre + utf8Len txt⟩] :=
  ⟨tiles_single _ k txt h, by simp [hk]⟩

theorem Seg.nil (src pre : List Char) : Seg src pre [] [] [] := ⟨rfl, rfl⟩

/-! ### inversion of one step of each reader -/

theorem value_inv {fuel : Nat} {cs rest : List Char} {d : Doc} (h : value (fuel + 1) cs = some (d, rest)) :
    (cs = 't' :: 'r' :: 'u' :: 'e' :: rest ∧ d = .bool true) ∨
    (cs = 'f' :: 'a' :: 'l' :: 's' :: 'e' :: rest ∧ d = .bool false) ∨
    (cs = 'n' :: 'u' :: 'l' :: 'l' :: rest ∧ d = .null) ∨
    (∃ r s, cs = '"' :: r ∧ stringBody r = some (s, rest) ∧ d = .str (String.ofList s)) ∨
    (∃ r, cs = '[' :: r ∧ skipWs r = ']' :: rest ∧ d = .arr []) ∨
    (∃ r xs, cs = '[' :: r ∧ elements fuel (skipWs r) = some (xs, rest) ∧ d = .arr xs) ∨
    (∃ r, cs = '{' :: r ∧ skipWs r = '}' :: rest ∧ d = .obj []) ∨
    (∃ r ms, cs = '{' :: r ∧ members fuel (skipWs r) = some (ms, rest) ∧ d = .obj ms) ∨
    (∃ n, number cs = some (n, rest) ∧ d = .num (String.ofList n)) := by
  unfold value at h
  split at h
  · simp only [Option.some.injEq, Prod.mk.injEq] at h; obtain ⟨rfl, rfl⟩ := h; exact .inl ⟨rfl, rfl⟩
  · simp only [Option.some.injEq, Prod.mk.injEq] at h; obtain ⟨rfl, rfl⟩ := h; exact .inr (.inl ⟨rfl, rfl⟩)
  · simp only [Option.some.injEq, Prod.mk.injEq] at h; obtain ⟨rfl, rfl⟩ := h; exact .inr (.inr (.inl ⟨rfl, rfl⟩))
  · rename_i r
    cases hs : stringBody r with
    | none => simp [hs] at h
    | some p =>
      obtain ⟨s, r'⟩ := p
      simp only [hs, Option.some.injEq, Prod.mk.injEq] at h
      obtain ⟨rfl, rfl⟩ := h
      exact .inr (.inr (.inr (.inl ⟨r, s, rfl, hs, rfl⟩)))
  · rename_i r
    split at h
    · rename_i r' hsk
      simp only [Option.some.injEq, Prod.mk.injEq] at h; obtain ⟨rfl, rfl⟩ := h
      exact .inr (.inr (.inr (.inr (.inl ⟨r, rfl, hsk, rfl⟩))))
    · cases he : elements fuel (skipWs r) with
      | none => simp [he] at h
      | some p =>
        obtain ⟨xs, r''⟩ := p
        simp only [he, Option.some.injEq, Prod.mk.injEq] at h
        obtain ⟨rfl, rfl⟩ := h
        exact .inr (.inr (.inr (.inr (.inr (.inl ⟨r, xs, rfl, he, rfl⟩)))))
  · rename_i r
    split at h
    · rename_i r' hsk
      simp only [Option.some.injEq, Prod.mk.injEq] at h; obtain ⟨rfl, rfl⟩ := h
      exact .inr (.inr (.inr (.inr (.inr (.inr (.inl ⟨r, rfl, hsk, rfl⟩))))))
    · cases he : members fuel (skipWs r) with
      | none => simp [he] at h
      | some p =>
        obtain ⟨ms, r''⟩ := p
        simp only [he, Option.some.injEq, Prod.mk.injEq] at h
        obtain ⟨rfl, rfl⟩ := h
        exact .inr (.inr (.inr (.inr (.inr (.inr (.inr (.inl ⟨r, ms, rfl, he, rfl⟩)))))))
  · cases hn : number cs with
    | none => simp [hn] at h
    | some p =>
      obtain ⟨n, r⟩ := p
      simp only [hn, Option.some.injEq, Prod.mk.injEq] at h
      obtain ⟨rfl, rfl⟩ := h
      exact .inr (.inr (.inr (.inr (.inr (.inr (.inr (.inr ⟨n, hn, rfl⟩)))))))

theorem elements_inv {fuel : Nat} {cs rest : List Char} {xs : List Doc} (h : elements (fuel + 1) cs = some (xs, rest)) :
    ∃ x r, value fuel cs = some (x, r) ∧
      ((skipWs r = ']' :: rest ∧ xs = [x]) ∨
       (∃ r' ys, skipWs r = ',' :: r' ∧ elements fuel (skipWs r') = some (ys, rest) ∧ xs = x :: ys)) := by
  unfold elements at h
  cases hv : value fuel cs with
  | none => simp [hv] at h
  | some p =>
    obtain ⟨x, r⟩ := p
    simp only [hv] at h
    refine ⟨x, r, rfl, ?_⟩
    split at h
    · rename_i r' hsk
      simp only [Option.some.injEq, Prod.mk.injEq] at h; obtain ⟨rfl, rfl⟩ := h
      exact .inl ⟨hsk, rfl⟩
    · rename_i r' hsk
      cases he : elements fuel (skipWs r') with
      | none => simp [he] at h
      | some q =>
        obtain ⟨ys, r''⟩ := q
        simp only [he, Option.some.injEq, Prod.mk.injEq] at h
        obtain ⟨rfl, rfl⟩ := h
        exact .inr ⟨r', ys, hsk, he, rfl⟩
    · cases h

theorem members_inv {fuel : Nat} {cs rest : List Char} {ms : List (String × Doc)}
    (h : members (fuel + 1) cs = some (ms, rest)) :
    ∃ r k r1 r2 v r3, cs = '"' :: r ∧ stringBody r = some (k, r1) ∧ skipWs r1 = ':' :: r2 ∧
      value fuel (skipWs r2) = some (v, r3) ∧
      ((skipWs r3 = '}' :: rest ∧ ms = [(String.ofList k, v)]) ∨
       (∃ r4 ns, skipWs r3 = ',' :: r4 ∧ members fuel (skipWs r4) = some (ns, rest) ∧ ms = (String.ofList k, v) :: ns)) := by
  unfold members at h
  split at h
  · rename_i r
    cases hs : stringBody r with
    | none => simp [hs] at h
    | some p =>
      obtain ⟨k, r1⟩ := p
      simp only [hs] at h
      split at h
      · rename_i r2 hsk
        cases hv : value fuel (skipWs r2) with
        | none => simp [hv] at h
        | some q =>
          obtain ⟨v, r3⟩ := q
          simp only [hv] at h
          refine ⟨r, k, r1, r2, v, r3, rfl, rfl, hsk, rfl, ?_⟩
          split at h
          · rename_i r4 hsk2
            simp only [Option.some.injEq, Prod.mk.injEq] at h; obtain ⟨rfl, rfl⟩ := h
            exact .inl ⟨hsk2, rfl⟩
          · rename_i r4 hsk2
            cases hm : members fuel (skipWs r4) with
            | none => simp [hm] at h
            | some q2 =>
              obtain ⟨ns, r5⟩ := q2
              simp only [hm, Option.some.injEq, Prod.mk.injEq] at h
              obtain ⟨rfl, rfl⟩ := h
              exact .inr ⟨r4, ns, hsk2, hm, rfl⟩
          · cases h
      · cases h
  · cases h

/-! ### the three mutually recursive readers -/

theorem value_sound (fuel : Nat) :
    (∀ cs d rest, value fuel cs = some (d, rest) → ∀ src pre, src = pre ++ cs →
      ∃ txt toks flt, cs = txt ++ rest ∧ Seg src pre txt toks flt ∧ TValue (keyOf src) flt (specDoc d)) ∧
    (∀ cs xs rest, elements fuel cs = some (xs, rest) → ∀ src pre, src = pre ++ cs →
      ∃ txt toks inner r, cs = txt ++ rest ∧ Seg src pre txt toks (inner ++ [r]) ∧ r.kind = .rbrak ∧
        TElems (keyOf src) inner (specDocs xs)) ∧
    (∀ cs ms rest, members fuel cs = some (ms, rest) → ∀ src pre, src = pre ++ cs →
      ∃ txt toks inner r, cs = txt ++ rest ∧ Seg src pre txt toks (inner ++ [r]) ∧ r.kind = .rbrace ∧
        TMembers (keyOf src) inner (specMembers ms)) := by
  induction fuel with
  | zero => exact ⟨by intro cs d rest h; simp [value] at h, by intro cs xs rest h; simp [elements] at h,
      by intro cs ms rest h; simp [members] at h⟩
  | succ fuel ih =>
    obtain ⟨ihV, ihE, ihM⟩ := ih
    refine ⟨?_, ?_, ?_⟩
    · -- value
      intro cs d rest h src pre hsrc
      sorry
    · sorry
    · sorry

end ShapeVerif
