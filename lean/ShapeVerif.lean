import ShapeVerif.Model.Shape
