// Each collection gets a source whose root alias has a readable, distinct name, so that an include
// that picks up another collection's file does not compile.
fn main() {
    let out = std::env::var("OUT_DIR").unwrap();
    let cases: [(&str, &str); 6] = [
        ("collection", "[1,2]"),          // pub type ArrayOfNumber = Vec<f64>;
        ("a.b", "[\"x\"]"),               // pub type ArrayOfStr = Vec<String>;
        ("my-shapes", "[true]"),          // pub type ArrayOfBool = Vec<bool>;
        ("v1.2.3", "[[1]]"),              // pub type ArrayOfArrayOfNumber = Vec<Vec<f64>>;
        ("x", "\"s\""),                   // pub type Str = String;
        // structs with non-ASCII (legal) field names, nested objects, a tuple and an optional member: only compiled
        ("names", "[{\"caf\u{e9}\":1,\"gr\u{f6}\u{df}e\":{\"na\u{ef}ve\":true},\"\u{540d}\u{524d}\":[\"x\",\"y\"],\"pos\":[1.5,\"N\"]},{\"caf\u{e9}\":2}]"),
    ];
    for (name, src) in cases {
        let p = std::path::Path::new(&out).join(format!("src_{}.json", name.replace('.', "_")));
        std::fs::write(&p, src).unwrap();
        let name: &'static str = Box::leak(name.to_string().into_boxed_str());
        json_shape_build::compile_json(name, &[p]).expect("compile_json");
    }
}
