#![allow(warnings)]
mod c0 {
    json_shape_build::include_json_shape!("collection");
}
mod c1 {
    json_shape_build::include_json_shape!("a.b");
}
mod c2 {
    json_shape_build::include_json_shape!("my-shapes");
}
mod c3 {
    json_shape_build::include_json_shape!("v1.2.3");
}
mod c4 {
    json_shape_build::include_json_shape!("x");
}
mod c5 {
    json_shape_build::include_json_shape!("names");
}

fn main() {
    let a: c0::ArrayOfNumber = serde_json::from_str("[1,2]").unwrap();
    let b: c1::ArrayOfStr = serde_json::from_str("[\"x\"]").unwrap();
    let c: c2::ArrayOfBool = serde_json::from_str("[true]").unwrap();
    let d: c3::ArrayOfArrayOfNumber = serde_json::from_str("[[1]]").unwrap();
    let e: c4::Str = serde_json::from_str("\"s\"").unwrap();
    println!("ok {} {} {} {} {}", a.len(), b.len(), c.len(), d.len(), e.len());
}
